----------------------------- MODULE LabwareInd -----------------------------
(***************************************************************************)
(* Unbounded companion to C02 (checked with Apalache, not TLC):            *)
(* for ARBITRARY integer limits 0 <= MinV < MaxV, arbitrary integer        *)
(* volumes v >= 0 and a three-well labware, the guarded per-well update of *)
(* add()/remove() (RTLabware!AddRun / RemoveRun, one well per step) keeps  *)
(* every well within [0, MaxV]; a removal never ends below MinV and an     *)
(* addition never above MaxV.  IndInv is shown inductive:                  *)
(*   IndInit => IndInv   and   IndInv /\ Next => IndInv'                   *)
(***************************************************************************)
EXTENDS Integers

CONSTANTS
  \* @type: Int;
  MinV,
  \* @type: Int;
  MaxV

VARIABLES
  \* @type: Int -> Int;
  vol,
  \* @type: Str;
  out

Wells == 1..3

ConstInit == MinV \in Int /\ MaxV \in Int /\ 0 <= MinV /\ MinV < MaxV

Add(w, v) == /\ v >= 0
             /\ IF vol[w] + v > MaxV
                THEN out' = "overflow" /\ UNCHANGED vol
                ELSE out' = "ok" /\ vol' = [vol EXCEPT ![w] = @ + v]

Remove(w, v) == /\ v >= 0
                /\ IF vol[w] - v < MinV
                   THEN out' = "underflow" /\ UNCHANGED vol
                   ELSE out' = "ok" /\ vol' = [vol EXCEPT ![w] = @ - v]

Next == \E w \in Wells : \E v \in Int : Add(w, v) \/ Remove(w, v)

IndInv == /\ vol \in [Wells -> Int]
          /\ \A w \in Wells : vol[w] >= 0 /\ vol[w] <= MaxV
          /\ out \in {"ok", "overflow", "underflow"}

\* constructor: any initial volumes within [0, MaxV] (they may lie below MinV)
IndInit == IndInv

\* the step property of C02: growth stays below MaxV, shrinkage above MinV
StepOK == \A w \in Wells : /\ vol'[w] > vol[w] => vol'[w] <= MaxV
                           /\ vol'[w] < vol[w] => vol'[w] >= MinV
=============================================================================
