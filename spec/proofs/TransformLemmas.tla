-------------------------- MODULE TransformLemmas --------------------------
(***************************************************************************)
(* Unbounded lemmas behind C15, proved with TLAPS for EVERY plate shape    *)
(* (MC_Transform checks the same statements on shapes up to 8 x 12):       *)
(* rotation by a quarter turn is inverted by the opposite quarter turn on  *)
(* the transposed plate, stays inside the transposed plate, four quarter   *)
(* turns are the identity; shifting by the anchor offset is inverted by    *)
(* unshifting and stays inside the destination exactly when the source     *)
(* plate fits.  Definitions are those of RTTransform with wells and shapes *)
(* written as components.                                                  *)
(***************************************************************************)
EXTENDS Integers, TLAPS

\* RTTransform!RotCW(<<R, C>>, <<r, c>>) = <<c, R - 1 - r>>, RotCCW = <<C - 1 - c, r>>
CWr(R, C, r, c) == c
CWc(R, C, r, c) == R - 1 - r
CCWr(R, C, r, c) == C - 1 - c
CCWc(R, C, r, c) == r

THEOREM RotInverse ==
  ASSUME NEW R \in Nat, NEW C \in Nat, NEW r \in 0..(R - 1), NEW c \in 0..(C - 1)
  PROVE  \* the images lie in the C x R plate
         /\ CWr(R, C, r, c) \in 0..(C - 1) /\ CWc(R, C, r, c) \in 0..(R - 1)
         /\ CCWr(R, C, r, c) \in 0..(C - 1) /\ CCWc(R, C, r, c) \in 0..(R - 1)
         \* counter-clockwise on the transposed plate undoes clockwise, and vice versa
         /\ CCWr(C, R, CWr(R, C, r, c), CWc(R, C, r, c)) = r
         /\ CCWc(C, R, CWr(R, C, r, c), CWc(R, C, r, c)) = c
         /\ CWr(C, R, CCWr(R, C, r, c), CCWc(R, C, r, c)) = r
         /\ CWc(C, R, CCWr(R, C, r, c), CCWc(R, C, r, c)) = c
  BY DEF CWr, CWc, CCWr, CCWc

THEOREM RotFourTimes ==
  ASSUME NEW R \in Nat, NEW C \in Nat, NEW r \in 0..(R - 1), NEW c \in 0..(C - 1)
  PROVE  LET r1 == CWr(R, C, r, c)     c1 == CWc(R, C, r, c)
             r2 == CWr(C, R, r1, c1)   c2 == CWc(C, R, r1, c1)
             r3 == CWr(R, C, r2, c2)   c3 == CWc(R, C, r2, c2)
             r4 == CWr(C, R, r3, c3)   c4 == CWc(C, R, r3, c3)
         IN  r4 = r /\ c4 = c
  BY DEF CWr, CWc

THEOREM RotInjective ==
  ASSUME NEW R \in Nat, NEW C \in Nat,
         NEW r \in 0..(R - 1), NEW c \in 0..(C - 1), NEW s \in 0..(R - 1), NEW d \in 0..(C - 1),
         CWr(R, C, r, c) = CWr(R, C, s, d), CWc(R, C, r, c) = CWc(R, C, s, d)
  PROVE  r = s /\ c = d
  BY DEF CWr, CWc

\* shifting: plate A (RA x CA) put on plate B (RB x CB) with A01 on the anchor <<ar, ac>>
THEOREM ShiftInverse ==
  ASSUME NEW ar \in Int, NEW ac \in Int, NEW r \in Int, NEW c \in Int
  PROVE  (r + ar) - ar = r /\ (c + ac) - ac = c
  OBVIOUS

THEOREM ShiftFitsIffInside ==
  ASSUME NEW RA \in Nat, NEW CA \in Nat, RA >= 1, CA >= 1, NEW RB \in Nat, NEW CB \in Nat,
         NEW ar \in 0..(RB - 1), NEW ac \in 0..(CB - 1)
  PROVE  (RA + ar <= RB /\ CA + ac <= CB)
         <=> (\A r \in 0..(RA - 1), c \in 0..(CA - 1) : r + ar \in 0..(RB - 1) /\ c + ac \in 0..(CB - 1))
<1>1. ASSUME RA + ar <= RB /\ CA + ac <= CB
      PROVE  \A r \in 0..(RA - 1), c \in 0..(CA - 1) : r + ar \in 0..(RB - 1) /\ c + ac \in 0..(CB - 1)
  BY <1>1
<1>2. ASSUME \A r \in 0..(RA - 1), c \in 0..(CA - 1) : r + ar \in 0..(RB - 1) /\ c + ac \in 0..(CB - 1)
      PROVE  RA + ar <= RB /\ CA + ac <= CB
  <2>1. (RA - 1) \in 0..(RA - 1) /\ (CA - 1) \in 0..(CA - 1)
    OBVIOUS
  <2>2. (RA - 1) + ar \in 0..(RB - 1) /\ (CA - 1) + ac \in 0..(CB - 1)
    BY <1>2, <2>1
  <2> QED BY <2>2
<1> QED BY <1>1, <1>2
=============================================================================
