---------------------------- MODULE SelectLemmas ----------------------------
(***************************************************************************)
(* Unbounded lemmas behind C12, proved with TLAPS: in the EVOware well     *)
(* selection string the well with column-major number idx (0-based, see    *)
(* proofs/PosInjective for idx = c * R + r) owns bit idx % 7 of character  *)
(* idx \div 7.  For EVERY number of wells n: the address is inside the     *)
(* CeilDiv(n, 7) characters of the bitmap, and two different wells never   *)
(* share an address (so distinct selections give distinct strings and the  *)
(* string decodes to exactly the selected wells).  MC_Select checks the    *)
(* complete encoder / decoder pair on geometries up to 14 wells.           *)
(***************************************************************************)
EXTENDS Integers, TLAPS

THEOREM DivMod7 ==
  ASSUME NEW x \in Nat
  PROVE  /\ x = 7 * (x \div 7) + (x % 7)
         /\ (x % 7) \in 0..6
         /\ (x \div 7) \in Nat
  BY Z3

THEOREM AddressInjective ==
  ASSUME NEW i \in Nat, NEW j \in Nat, i \div 7 = j \div 7, i % 7 = j % 7
  PROVE  i = j
  BY DivMod7

THEOREM AddressInside ==
  ASSUME NEW n \in Nat, n >= 1, NEW i \in 0..(n - 1)
  PROVE  LET nchars == (n + 6) \div 7 IN (i \div 7) \in 0..(nchars - 1)
<1> DEFINE q == i \div 7
<1> DEFINE m == (n + 6) \div 7
<1>1. i = 7 * q + (i % 7) /\ (i % 7) \in 0..6 /\ q \in Nat
  BY DivMod7
<1>2. (n + 6) = 7 * m + ((n + 6) % 7) /\ ((n + 6) % 7) \in 0..6 /\ m \in Nat
  BY DivMod7
<1> HIDE DEF q, m
<1>3. 7 * q <= i
  BY <1>1
<1>4. i <= n - 1
  OBVIOUS
<1>5. n <= 7 * m
  BY <1>2
<1>6. 7 * q < 7 * m
  BY <1>1, <1>2, <1>3, <1>4, <1>5
<1>7. q < m
  BY <1>6, <1>1, <1>2
<1> QED BY <1>7, <1>1, <1>2 DEF q, m
=============================================================================
