----------------------------- MODULE SplitValid -----------------------------
(***************************************************************************)
(* Unbounded lemma behind C06, proved with TLAPS: the balanced split of    *)
(* RTPlan!RefSplitG (with the cap) is a valid split for EVERY volume and   *)
(* EVERY positive max_volume, not only for the bounded instance of         *)
(* MC_Split.  Ceiling divisions are represented by their characterising    *)
(* inequalities:                                                           *)
(*   n   = CeilDiv(v, M)        <=>  (n - 1) * M < v <= n * M              *)
(*   raw = CeilDiv(v, n*k) * k   =>  raw * n >= v                          *)
(* The split is n - 1 steps of step = Min(raw, M) and a last step of       *)
(* v - (n - 1) * step.                                                     *)
(***************************************************************************)
EXTENDS Integers, TLAPS

THEOREM SplitValid ==
  ASSUME NEW v \in Nat, NEW M \in Nat, M > 0, v >= M,
         NEW n \in Nat, n >= 1, (n - 1) * M < v, v <= n * M,
         NEW raw \in Nat, raw * n >= v,
         NEW step \in Nat, step = IF raw <= M THEN raw ELSE M
  PROVE  /\ step > 0 /\ step <= M
         /\ v - (n - 1) * step > 0
         /\ v - (n - 1) * step <= M
         /\ (n - 1) * step + (v - (n - 1) * step) = v
<1>1. raw > 0
  <2>1. CASE raw = 0
    <3>1. raw * n = 0
      BY <2>1
    <3> QED BY <3>1
  <2> QED BY <2>1
<1>2. step > 0 /\ step <= M
  BY <1>1
<1>3. (n - 1) * step <= (n - 1) * M
  <2>1. n - 1 >= 0
    OBVIOUS
  <2>2. step <= M
    BY <1>2
  <2> QED BY <2>1, <2>2
<1>4. v - (n - 1) * step > 0
  BY <1>3
<1>5. v - (n - 1) * step <= M
  <2>1. CASE raw <= M
    <3>1. step = raw
      BY <2>1
    <3>2. (n - 1) * raw = raw * n - raw
      OBVIOUS
    <3>3. v - (n - 1) * raw = v - raw * n + raw
      BY <3>2
    <3>4. v - raw * n <= 0
      OBVIOUS
    <3>5. v - (n - 1) * raw <= raw
      BY <3>3, <3>4
    <3> QED BY <3>1, <3>5, <2>1
  <2>2. CASE raw > M
    <3>1. step = M
      BY <2>2
    <3>2. (n - 1) * M = n * M - M
      OBVIOUS
    <3>3. v - (n - 1) * M = v - n * M + M
      BY <3>2
    <3> QED BY <3>1, <3>3
  <2> QED BY <2>1, <2>2
<1>6. (n - 1) * step + (v - (n - 1) * step) = v
  OBVIOUS
<1> QED BY <1>2, <1>4, <1>5, <1>6

(* no split into fewer steps exists: m steps of at most M cover at most m * M *)
THEOREM SplitMinimal ==
  ASSUME NEW v \in Nat, NEW M \in Nat, M > 0,
         NEW n \in Nat, n >= 1, (n - 1) * M < v,
         NEW m \in Nat, v <= m * M
  PROVE  m >= n
<1>1. CASE m <= n - 1
  <2> DEFINE d == n - 1 - m
  <2>0. d \in Nat
    BY <1>1
  <2>1. d * M >= 0
    BY <2>0
  <2>2. (n - 1) * M = m * M + d * M
    OBVIOUS
  <2>3. m * M <= (n - 1) * M
    BY <2>1, <2>2
  <2> QED BY <2>3
<1> QED BY <1>1

(* the ceiling division of RTNum satisfies the characterising inequalities used above *)
CeilDiv(a, b) == (a + b - 1) \div b

THEOREM DivMod ==
  ASSUME NEW x \in Nat, NEW b \in Nat, b > 0
  PROVE  /\ x = b * (x \div b) + (x % b)
         /\ (x % b) \in 0..(b - 1)
         /\ (x \div b) \in Nat
  BY Z3

THEOREM CeilDivChar ==
  ASSUME NEW a \in Nat, NEW b \in Nat, b > 0
  PROVE  /\ CeilDiv(a, b) \in Nat
         /\ a <= CeilDiv(a, b) * b
         /\ a > 0 => (CeilDiv(a, b) - 1) * b < a
<1> DEFINE x == a + b - 1
<1> DEFINE q == x \div b
<1> DEFINE r == x % b
<1>0. x \in Nat
  OBVIOUS
<1>1. x = b * q + r /\ r \in 0..(b - 1) /\ q \in Nat
  BY <1>0, DivMod
<1> HIDE DEF q, r
<1>2. q * b = b * q
  BY <1>1
<1>3. a <= q * b
  BY <1>1, <1>2
<1>4. a > 0 => (q - 1) * b < a
  <2>1. (q - 1) * b = q * b - b
    BY <1>1
  <2> QED BY <1>1, <1>2, <2>1
<1>5. CeilDiv(a, b) = q
  BY DEF CeilDiv, q
<1> QED BY <1>1, <1>3, <1>4, <1>5
=============================================================================
