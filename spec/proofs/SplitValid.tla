----------------------------- MODULE SplitValid -----------------------------
(***************************************************************************)
(* Unbounded lemma behind C06, proved with TLAPS: the balanced split of    *)
(* RTPlan!RefSplitG (with the cap) is a valid split for EVERY volume and   *)
(* EVERY positive max_volume, not only for the bounded instance of         *)
(* MC_Split.  Ceiling divisions are represented by their characterising    *)
(* inequalities:                                                           *)
(*   n   = CeilDiv(v, M)        <=>  (n - 1) * M < v <= n * M              *)
(*   raw = CeilDiv(v, n*k) * k   =>  raw * n >= v                          *)
(* The split is n - 1 steps of step = Min(raw, M) and a last step of       *)
(* v - (n - 1) * step.                                                     *)
(***************************************************************************)
EXTENDS Integers, TLAPS

THEOREM SplitValid ==
  ASSUME NEW v \in Nat, NEW M \in Nat, M > 0, v >= M,
         NEW n \in Nat, n >= 1, (n - 1) * M < v, v <= n * M,
         NEW raw \in Nat, raw * n >= v,
         NEW step \in Nat, step = IF raw <= M THEN raw ELSE M
  PROVE  /\ step > 0 /\ step <= M
         /\ v - (n - 1) * step > 0
         /\ v - (n - 1) * step <= M
         /\ (n - 1) * step + (v - (n - 1) * step) = v
<1>1. raw > 0
  <2>1. CASE raw = 0
    <3>1. raw * n = 0
      BY <2>1
    <3> QED BY <3>1
  <2> QED BY <2>1
<1>2. step > 0 /\ step <= M
  BY <1>1
<1>3. (n - 1) * step <= (n - 1) * M
  <2>1. n - 1 >= 0
    OBVIOUS
  <2>2. step <= M
    BY <1>2
  <2> QED BY <2>1, <2>2
<1>4. v - (n - 1) * step > 0
  BY <1>3
<1>5. v - (n - 1) * step <= M
  <2>1. CASE raw <= M
    <3>1. step = raw
      BY <2>1
    <3>2. (n - 1) * raw = raw * n - raw
      OBVIOUS
    <3>3. v - (n - 1) * raw = v - raw * n + raw
      BY <3>2
    <3>4. v - raw * n <= 0
      OBVIOUS
    <3>5. v - (n - 1) * raw <= raw
      BY <3>3, <3>4
    <3> QED BY <3>1, <3>5, <2>1
  <2>2. CASE raw > M
    <3>1. step = M
      BY <2>2
    <3>2. (n - 1) * M = n * M - M
      OBVIOUS
    <3>3. v - (n - 1) * M = v - n * M + M
      BY <3>2
    <3> QED BY <3>1, <3>3
  <2> QED BY <2>1, <2>2
<1>6. (n - 1) * step + (v - (n - 1) * step) = v
  OBVIOUS
<1> QED BY <1>2, <1>4, <1>5, <1>6

(* no split into fewer steps exists: m steps of at most M cover at most m * M *)
THEOREM SplitMinimal ==
  ASSUME NEW v \in Nat, NEW M \in Nat, M > 0,
         NEW n \in Nat, n >= 1, (n - 1) * M < v,
         NEW m \in Nat, v <= m * M
  PROVE  m >= n
<1>1. CASE m <= n - 1
  <2> DEFINE d == n - 1 - m
  <2>0. d \in Nat
    BY <1>1
  <2>1. d * M >= 0
    BY <2>0
  <2>2. (n - 1) * M = m * M + d * M
    OBVIOUS
  <2>3. m * M <= (n - 1) * M
    BY <2>1, <2>2
  <2> QED BY <2>3
<1> QED BY <1>1

(* the ceiling division of RTNum satisfies the characterising inequalities used above *)
CeilDiv(a, b) == (a + b - 1) \div b

THEOREM DivMod ==
  ASSUME NEW x \in Nat, NEW b \in Nat, b > 0
  PROVE  /\ x = b * (x \div b) + (x % b)
         /\ (x % b) \in 0..(b - 1)
         /\ (x \div b) \in Nat
  BY Z3

THEOREM CeilDivChar ==
  ASSUME NEW a \in Nat, NEW b \in Nat, b > 0
  PROVE  /\ CeilDiv(a, b) \in Nat
         /\ a <= CeilDiv(a, b) * b
         /\ a > 0 => (CeilDiv(a, b) - 1) * b < a
<1> DEFINE x == a + b - 1
<1> DEFINE q == x \div b
<1> DEFINE r == x % b
<1>0. x \in Nat
  OBVIOUS
<1>1. x = b * q + r /\ r \in 0..(b - 1) /\ q \in Nat
  BY <1>0, DivMod
<1> HIDE DEF q, r
<1>2. q * b = b * q
  BY <1>1
<1>3. a <= q * b
  BY <1>1, <1>2
<1>4. a > 0 => (q - 1) * b < a
  <2>1. (q - 1) * b = q * b - b
    BY <1>1
  <2> QED BY <1>1, <1>2, <2>1
<1>5. CeilDiv(a, b) = q
  BY DEF CeilDiv, q
<1> QED BY <1>1, <1>3, <1>4, <1>5

(***************************************************************************)
(* Reagent distribution: the number of multi-dispenses per aspiration that *)
(* RTPlan!RefMultiDisp chooses satisfies RTPlan!MultiDispOK for every      *)
(* requested number md0, every volume 0 < v <= M.                          *)
(***************************************************************************)
RefMultiDisp(md0, v, M) == IF md0 * v > M THEN M \div v ELSE md0

THEOREM MultiDispValid ==
  ASSUME NEW md0 \in Nat, md0 >= 1, NEW v \in Nat, v > 0, NEW M \in Nat, v <= M,
         NEW md, md = RefMultiDisp(md0, v, M)
  PROVE  /\ md \in Nat /\ md >= 1 /\ md <= md0
         /\ md * v <= M
         /\ (md0 * v <= M => md = md0)
         /\ (md0 * v > M => (md + 1) * v > M)
<1> DEFINE q == M \div v
<1> DEFINE r == M % v
<1>1. M = v * q + r /\ r \in 0..(v - 1) /\ q \in Nat
  BY DivMod
<1> HIDE DEF q, r
<1>2. q * v = v * q
  BY <1>1
<1>3. q * v <= M
  BY <1>1, <1>2
<1>4. (q + 1) * v > M
  <2>1. (q + 1) * v = q * v + v
    BY <1>1
  <2> QED BY <1>1, <1>2, <2>1
<1>5. q >= 1
  <2>1. CASE q = 0
    <3>1. M = r
      BY <1>1, <2>1
    <3> QED BY <3>1, <1>1
  <2> QED BY <2>1, <1>1
<1>6. CASE md0 * v <= M
  <2>1. md = md0
    BY <1>6 DEF RefMultiDisp
  <2> QED BY <2>1, <1>6
<1>7. CASE md0 * v > M
  <2>1. md = q
    BY <1>7 DEF RefMultiDisp, q
  <2>2. q <= md0
    <3>1. CASE q > md0
      <4> DEFINE d == q - md0
      <4>1. d \in Nat
        BY <3>1, <1>1
      <4>2. q * v = md0 * v + d * v
        BY <1>1
      <4>3. d * v >= 0
        BY <4>1
      <4> QED BY <4>1, <4>2, <4>3, <1>1, <1>3, <1>7
    <3> QED BY <3>1, <1>1
  <2>3. md \in Nat /\ md >= 1 /\ md <= md0
    BY <2>1, <2>2, <1>1, <1>5
  <2>4. md * v <= M
    BY <2>1, <1>3
  <2>5. (md + 1) * v > M
    BY <2>1, <1>4
  <2>6. md0 * v <= M => md = md0
    BY <1>7
  <2> QED BY <2>3, <2>4, <2>5, <2>6
<1> QED BY <1>6, <1>7
=============================================================================
