---------------------------- MODULE PosInjective ----------------------------
(***************************************************************************)
(* Unbounded lemma behind C08, proved with TLAPS (not bounded by TLC):     *)
(* for ANY number of rows R > 0 the column-major numbering                 *)
(*     pos(r, c) = 1 + c * R + r        (0 <= r < R, c >= 0)               *)
(* used by EvoPos / FluentPos (RTGeom) is injective, and it maps the wells *)
(* of an R x C grid into 1 .. R * C.                                       *)
(***************************************************************************)
EXTENDS Integers, TLAPS

Pos(R, r, c) == 1 + c * R + r

THEOREM PosInjective ==
  ASSUME NEW R \in Nat, R > 0,
         NEW r1 \in 0..(R - 1), NEW c1 \in Nat,
         NEW r2 \in 0..(R - 1), NEW c2 \in Nat,
         Pos(R, r1, c1) = Pos(R, r2, c2)
  PROVE  r1 = r2 /\ c1 = c2
<1>1. c1 * R + r1 = c2 * R + r2
  BY DEF Pos
<1>2. c1 = c2
  <2>1. CASE c1 < c2
    <3>1. c2 >= c1 + 1
      BY <2>1
    <3>2. c2 * R >= (c1 + 1) * R
      BY <3>1
    <3>3. (c1 + 1) * R = c1 * R + R
      OBVIOUS
    <3>4. c2 * R + r2 >= c1 * R + R
      BY <3>2, <3>3
    <3>5. c1 * R + r1 < c1 * R + R
      OBVIOUS
    <3> QED BY <1>1, <3>4, <3>5
  <2>2. CASE c2 < c1
    <3>1. c1 >= c2 + 1
      BY <2>2
    <3>2. c1 * R >= (c2 + 1) * R
      BY <3>1
    <3>3. (c2 + 1) * R = c2 * R + R
      OBVIOUS
    <3>4. c1 * R + r1 >= c2 * R + R
      BY <3>2, <3>3
    <3>5. c2 * R + r2 < c2 * R + R
      OBVIOUS
    <3> QED BY <1>1, <3>4, <3>5
  <2> QED BY <2>1, <2>2
<1>3. r1 = r2
  BY <1>1, <1>2
<1> QED BY <1>2, <1>3

THEOREM PosRange ==
  ASSUME NEW R \in Nat, R > 0, NEW C \in Nat, C > 0,
         NEW r \in 0..(R - 1), NEW c \in 0..(C - 1)
  PROVE  Pos(R, r, c) >= 1 /\ Pos(R, r, c) <= R * C
<1>1. c * R >= 0
  OBVIOUS
<1>2. c + 1 <= C
  OBVIOUS
<1>3. (c + 1) * R <= C * R
  BY <1>2
<1>4. (c + 1) * R = c * R + R
  OBVIOUS
<1>5. C * R = R * C
  OBVIOUS
<1> QED BY <1>1, <1>3, <1>4, <1>5 DEF Pos
=============================================================================
