------------------------------- MODULE RTRobot -------------------------------
(***************************************************************************)
(* An independent interpreter of the Tecan worklist format: what happens   *)
(* to the cavities on the deck when the robot executes decoded records.    *)
(*                                                                         *)
(* T = [dev, unitc, wlmaxc, lw]                                            *)
(*    dev    "evo" | "fluent"  (decides which cavity a position addresses) *)
(*    unitc  hundredths of a microlitre per volume unit of the trace       *)
(*    wlmaxc diluter (worklist max_volume) in hundredths of a microlitre   *)
(*    lw     sequence of [name, g, minv, maxv, grid, site]                 *)
(* Robot state st = [vol, comp, tip, err, at, unknown]                     *)
(*    tip     [known, c, left]: content of the tip after the last aspirate *)
(*    err     "" or the first problem met; at = index of that record       *)
(*    unknown liquid of unknown origin was dispensed (composition no       *)
(*            longer comparable)                                           *)
(***************************************************************************)
EXTENDS RTLabware, RTSelect

NoTip == [known |-> FALSE, c |-> {}, left |-> 0]
RobotInit(vol, comp) == [vol |-> vol, comp |-> comp, tip |-> NoTip, err |-> "", at |-> 0, unknown |-> FALSE]

HasRack(T, name) == \E k \in 1..Len(T.lw) : T.lw[k].name = name
RackIdx(T, name) == CHOOSE k \in 1..Len(T.lw) : T.lw[k].name = name
HasSite(T, grid, site) == \E k \in 1..Len(T.lw) : T.lw[k].grid = grid /\ T.lw[k].site = site
SiteIdx(T, grid, site) == CHOOSE k \in 1..Len(T.lw) : T.lw[k].grid = grid /\ T.lw[k].site = site

Fail(st, i, what) == [st EXCEPT !.err = what, !.at = i]

\* one aspirate of x units from cavity cav of labware k
DoAsp(T, st, i, k, cav, x) ==
  LET nv == st.vol[k][cav] - x IN
  IF nv < T.lw[k].minv THEN Fail(st, i, "underflow")
  ELSE [st EXCEPT !.vol[k][cav] = nv,
                  !.tip = [known |-> TRUE, c |-> st.comp[k][cav], left |-> x]]

DoDisp(T, st, i, k, cav, x) ==
  LET nv == st.vol[k][cav] + x IN
  IF nv > T.lw[k].maxv THEN Fail(st, i, "overflow")
  ELSE IF st.tip.known /\ st.tip.left >= x
       THEN [st EXCEPT !.vol[k][cav] = nv,
                       !.comp[k][cav] = MixComp(st.comp[k][cav], st.vol[k][cav], st.tip.c, x),
                       !.tip.left = @ - x]
       ELSE [st EXCEPT !.vol[k][cav] = nv, !.unknown = (x > 0) \/ @]

\* reagent distribution: every destination position of the range that is not
\* excluded receives x units taken from the cavity the source range addresses
RECURSIVE DoR(_, _, _, _, _, _, _, _)
DoR(T, st, i, ks, scav, kd, ps, x) ==
  IF ps = <<>> \/ st.err # "" THEN st
  ELSE LET p    == Head(ps)
           dcav == CavOfPos(T.dev, T.lw[kd].g, p)
           a    == DoAsp(T, st, i, ks, scav, x)
       IN IF a.err # "" THEN a
          ELSE DoR(T, DoDisp(T, a, i, kd, dcav, x), i, ks, scav, kd, Tail(ps), x)

\* bit positions (1..8) set in a tip mask, ascending
TipsOfMask(m) == SelectSeq([n \in 1..8 |-> n], LAMBDA n : Bit(m, n - 1) = 1)
\* wells selected by a selection string, in ascending column-major order
SelectedAsc(sel) ==
  LET R == DecodeRows(sel)
      S == DecodeWells(sel)
      ser == {Serial(R, w) : w \in S}
      RECURSIVE Asc(_)
      Asc(X) == IF X = {} THEN <<>>
                ELSE LET m == CHOOSE a \in X : \A b \in X : a <= b IN <<m>> \o Asc(X \ {m})
      order == Asc(ser)
  IN [j \in 1..Len(order) |-> <<order[j] % R, order[j] \div R>>]

RECURSIVE Exec(_, _, _, _)
Exec(T, recs, i, st) ==
  IF i > Len(recs) \/ st.err # "" THEN st ELSE
  LET r == recs[i] IN
  IF r.t \in {"A", "D"} THEN
      IF ~HasRack(T, r.rack) THEN Fail(st, i, "norack") ELSE
      LET k == RackIdx(T, r.rack)  g == T.lw[k].g IN
      IF r.pos < 1 \/ r.pos > NPos(T.dev, g) THEN Fail(st, i, "nopos") ELSE
      IF r.cents < 0 \/ r.cents % T.unitc # 0 THEN Fail(st, i, "offgrid") ELSE
      IF r.cents > T.wlmaxc THEN Fail(st, i, "oversized") ELSE
      LET cav == CavOfPos(T.dev, g, r.pos)  x == r.cents \div T.unitc IN
      Exec(T, recs, i + 1,
           IF r.t = "A" THEN DoAsp(T, st, i, k, cav, x) ELSE DoDisp(T, st, i, k, cav, x))
  ELSE IF r.t \in {"W", "WD", "F"} THEN Exec(T, recs, i + 1, [st EXCEPT !.tip = NoTip])
  ELSE IF r.t = "R" THEN
      IF ~HasRack(T, r.srack) \/ ~HasRack(T, r.drack) THEN Fail(st, i, "norack") ELSE
      LET ks == RackIdx(T, r.srack)  kd == RackIdx(T, r.drack)
          gs == T.lw[ks].g           gd == T.lw[kd].g IN
      IF r.s1 < 1 \/ r.s2 < r.s1 \/ r.s2 > NPos(T.dev, gs) THEN Fail(st, i, "nopos") ELSE
      IF r.d1 < 1 \/ r.d2 < r.d1 \/ r.d2 > NPos(T.dev, gd) THEN Fail(st, i, "nopos") ELSE
      IF \E p \in r.s1..r.s2 : CavOfPos(T.dev, gs, p) # CavOfPos(T.dev, gs, r.s1) THEN Fail(st, i, "srcrange") ELSE
      IF r.volc < 0 \/ r.volc % T.unitc # 0 THEN Fail(st, i, "offgrid") ELSE
      IF r.volc * Max(1, r.md) > T.wlmaxc THEN Fail(st, i, "oversized") ELSE
      LET ps == SelectSeq([j \in 1..(r.d2 - r.d1 + 1) |-> r.d1 + j - 1],
                          LAMBDA p : p \notin Range(r.excl))
      IN Exec(T, recs, i + 1,
              [DoR(T, st, i, ks, CavOfPos(T.dev, gs, r.s1), kd, ps, r.volc \div T.unitc) EXCEPT !.tip = NoTip])
  ELSE IF r.t \in {"BA", "BD"} THEN
      IF ~HasSite(T, r.grid, r.site) THEN Fail(st, i, "norack") ELSE
      LET k == SiteIdx(T, r.grid, r.site)  g == T.lw[k].g
          tips == TipsOfMask(r.mask) IN
      IF DecodeRows(r.sel) # IdRows(g) \/ DecodeCols(r.sel) # g.cols THEN Fail(st, i, "seldim") ELSE
      LET ws == SelectedAsc(r.sel) IN
      IF Len(ws) # Len(tips) THEN Fail(st, i, "tipcount") ELSE
      IF \E j \in 1..Len(tips) : r.vols[tips[j]] < 0 \/ r.vols[tips[j]] % T.unitc # 0 THEN Fail(st, i, "offgrid") ELSE
      IF \E n \in 1..8 : n \notin Range(tips) /\ r.vols[n] # 0 THEN Fail(st, i, "strayvolume") ELSE
      IF \E j \in 1..Len(tips) : r.vols[tips[j]] > T.wlmaxc THEN Fail(st, i, "oversized") ELSE
      LET RECURSIVE Each(_, _)
          Each(s, j) == IF j > Len(tips) \/ s.err # "" THEN s
                        ELSE LET cav == RealIdx(g, ws[j])  x == r.vols[tips[j]] \div T.unitc IN
                             Each(IF r.t = "BA" THEN DoAsp(T, s, i, k, cav, x)
                                  ELSE DoDisp(T, [s EXCEPT !.tip = NoTip], i, k, cav, x), j + 1)
      IN Exec(T, recs, i + 1, [Each(st, 1) EXCEPT !.tip = NoTip])
  ELSE Exec(T, recs, i + 1, st)       \* B, C, S, BW: no liquid moves

Run(T, vol, comp, recs) == Exec(T, recs, 1, RobotInit(vol, comp))

(***************************************************************************)
(* The same interpreter on the SUPPORT of the compositions only (which     *)
(* components are present in a cavity, whatever their fractions).  It has  *)
(* no arithmetic on fractions and therefore no limit on dilution depth: a  *)
(* component never vanishes from a cavity that is not emptied and never    *)
(* appears without having been dispensed.  Records the main interpreter    *)
(* rejects are skipped here (clauses using RunSup require Run(...).err="").*)
(* st = [vol, sup, tip]: tip = [known, s] the support of the tip content.  *)
(***************************************************************************)
SupAsp(st, k, cav, x) == [st EXCEPT !.vol[k][cav] = @ - x, !.tip = [known |-> TRUE, s |-> st.sup[k][cav]]]
SupDisp(st, k, cav, x) ==
  IF x = 0 THEN st
  ELSE [st EXCEPT !.vol[k][cav] = @ + x,
                  !.sup[k][cav] = (IF st.vol[k][cav] = 0 THEN {} ELSE @) \cup (IF st.tip.known THEN st.tip.s ELSE {})]

RECURSIVE ExecSup(_, _, _, _)
ExecSup(T, recs, i, st) ==
  IF i > Len(recs) THEN st ELSE
  LET r == recs[i] IN
  IF r.t \in {"A", "D"} /\ HasRack(T, r.rack) THEN
      LET k == RackIdx(T, r.rack)  g == T.lw[k].g IN
      IF r.pos < 1 \/ r.pos > NPos(T.dev, g) \/ r.cents < 0 \/ r.cents % T.unitc # 0 THEN ExecSup(T, recs, i + 1, st) ELSE
      LET cav == CavOfPos(T.dev, g, r.pos)  x == r.cents \div T.unitc IN
      ExecSup(T, recs, i + 1, IF r.t = "A" THEN SupAsp(st, k, cav, x) ELSE SupDisp(st, k, cav, x))
  ELSE IF r.t \in {"W", "WD", "F"} THEN ExecSup(T, recs, i + 1, [st EXCEPT !.tip = [known |-> FALSE, s |-> {}]])
  ELSE IF r.t = "R" /\ HasRack(T, r.srack) /\ HasRack(T, r.drack) THEN
      LET ks == RackIdx(T, r.srack)  kd == RackIdx(T, r.drack)
          gs == T.lw[ks].g           gd == T.lw[kd].g IN
      IF r.s1 < 1 \/ r.s1 > NPos(T.dev, gs) \/ r.d1 < 1 \/ r.d2 < r.d1 \/ r.d2 > NPos(T.dev, gd) \/ r.volc < 0 \/ r.volc % T.unitc # 0
      THEN ExecSup(T, recs, i + 1, st) ELSE
      LET scav == CavOfPos(T.dev, gs, r.s1)  x == r.volc \div T.unitc
          ps == SelectSeq([j \in 1..(r.d2 - r.d1 + 1) |-> r.d1 + j - 1], LAMBDA p : p \notin Range(r.excl))
          RECURSIVE Each(_, _)
          Each(s, j) == IF j > Len(ps) THEN s
                        ELSE Each(SupDisp(SupAsp(s, ks, scav, x), kd, CavOfPos(T.dev, gd, ps[j]), x), j + 1)
      IN ExecSup(T, recs, i + 1, [Each(st, 1) EXCEPT !.tip = [known |-> FALSE, s |-> {}]])
  ELSE ExecSup(T, recs, i + 1, st)

RunSup(T, vol, sup, recs) == ExecSup(T, recs, 1, [vol |-> vol, sup |-> sup, tip |-> [known |-> FALSE, s |-> {}]])
=============================================================================
