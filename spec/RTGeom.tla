------------------------------- MODULE RTGeom -------------------------------
(***************************************************************************)
(* Labware geometry, well identifiers and device specific well numbering.  *)
(*                                                                         *)
(* A geometry is [rows, cols, vrows]: vrows = 0 for a plate; a trough has  *)
(* rows = 1 real row and vrows >= 1 virtual rows that exist only in the    *)
(* well identifiers.  A well is <<r, c>> (0-based identifier row, column). *)
(* Real wells (cavities) are numbered column-major, 1-based.               *)
(***************************************************************************)
EXTENDS RTNum

Letters == "ABCDEFGHIJKLMNOPQRSTUVWXYZ"
MaxRows == 26

IsTrough(g) == g.vrows > 0
IdRows(g)   == IF g.vrows = 0 THEN g.rows ELSE g.vrows
NReal(g)    == g.rows * g.cols
NIds(g)     == IdRows(g) * g.cols

IdWells(g)  == {<<r, c>> : r \in 0..(IdRows(g) - 1), c \in 0..(g.cols - 1)}
ValidWell(g, w) == /\ w[1] >= 0 /\ w[1] < IdRows(g) /\ w[2] >= 0 /\ w[2] < g.cols

\* (row, column) of the real well an identifier addresses (numpy index)
RealRC(g, w)  == IF g.vrows = 0 THEN w ELSE <<0, w[2]>>
\* column-major 1-based number of that real well
RealIdx(g, w) == IF g.vrows = 0 THEN w[2] * g.rows + w[1] + 1 ELSE w[2] + 1
\* inverse for real wells
RealWell(g, i) == IF g.vrows = 0 THEN <<(i - 1) % g.rows, (i - 1) \div g.rows>> ELSE <<0, i - 1>>

(***************************************************************************)
(* Device numbering (C08).  EVO counts virtual rows, Fluent does not.      *)
(***************************************************************************)
EvoPos(g, w)    == 1 + w[2] * IdRows(g) + w[1]
FluentPos(g, w) == IF g.vrows = 0 THEN 1 + w[2] * g.rows + w[1] ELSE 1 + w[2]
Pos(dev, g, w)  == IF dev = "fluent" THEN FluentPos(g, w) ELSE EvoPos(g, w)

\* number of addressable positions of a labware on a device
NPos(dev, g) == IF g.vrows = 0 THEN g.rows * g.cols
                ELSE IF dev = "fluent" THEN g.cols ELSE g.vrows * g.cols

\* the cavity (real well number) a device position addresses
CavOfPos(dev, g, p) == IF g.vrows = 0 THEN p
                       ELSE IF dev = "fluent" THEN p ELSE ((p - 1) \div g.vrows) + 1

\* identifier wells that a device position denotes
WellsAt(dev, g, p) == {w \in IdWells(g) : Pos(dev, g, w) = p}

(***************************************************************************)
(* Identifier strings: row letter + two digit (or longer) column number.   *)
(***************************************************************************)
Pad2(n) == IF n < 10 THEN "0" \o ToString(n) ELSE ToString(n)
RowLetter(r) == IF r >= 0 /\ r < MaxRows THEN SubSeq(Letters, r + 1, r + 1) ELSE "?"
WellId(w) == RowLetter(w[1]) \o Pad2(w[2] + 1)

\* identifier array as the constructor must build it: R x C, row-major nesting
IdArray(g) == [r \in 1..IdRows(g) |-> [c \in 1..g.cols |-> WellId(<<r - 1, c - 1>>)]]

(***************************************************************************)
(* Argument shapes.  Well and volume arguments are logged in the shape     *)
(* they were passed: [k |-> "s", x |-> e] scalar, [k |-> "l", x |-> seq]   *)
(* one-dimensional, [k |-> "m", x |-> seq of rows] two-dimensional.        *)
(* numpy's flatten("F") reads a 2-D array column by column.                *)
(***************************************************************************)
FlattenF(a) ==
  IF a.k = "s" THEN <<a.x>>
  ELSE IF a.k = "l" THEN a.x
  ELSE LET R == Len(a.x)
           C == IF R = 0 THEN 0 ELSE Len(a.x[1])
       IN  [i \in 1..(R * C) |-> a.x[((i - 1) % R) + 1][((i - 1) \div R) + 1]]

\* number of elements and the broadcast of a singleton to n elements
Broadcast(s, n) == IF Len(s) = 1 THEN Replicate(s[1], n) ELSE s

(***************************************************************************)
(* Lemmas checked by TLC on bounded geometries (MC_Geom) and, for          *)
(* injectivity, proved with TLAPS for all sizes (proofs/PosInjective).     *)
(***************************************************************************)
PlateGeom(R, C)    == [rows |-> R, cols |-> C, vrows |-> 0]
TroughGeom(V, C)   == [rows |-> 1, cols |-> C, vrows |-> V]

EvoBijective(g) ==
  /\ \A w \in IdWells(g) : EvoPos(g, w) \in 1..NIds(g)
  /\ {EvoPos(g, w) : w \in IdWells(g)} = 1..NIds(g)
  /\ Cardinality(IdWells(g)) = NIds(g)

FluentBijectiveOnReal(g) ==
  /\ \A w \in IdWells(g) : FluentPos(g, w) \in 1..NReal(g)
  /\ \A w \in IdWells(g) : FluentPos(g, w) = RealIdx(g, w)
  /\ \A p \in 1..NReal(g) : \E w \in IdWells(g) : FluentPos(g, w) = p

PosAddressesRealWell(g) ==
  \A dev \in {"evo", "fluent"} : \A w \in IdWells(g) :
     /\ Pos(dev, g, w) \in 1..NPos(dev, g)
     /\ CavOfPos(dev, g, Pos(dev, g, w)) = RealIdx(g, w)

RealIdxRoundTrip(g) ==
  /\ \A i \in 1..NReal(g) : RealIdx(g, RealWell(g, i)) = i
  /\ \A w \in IdWells(g) : RealWell(g, RealIdx(g, w)) = RealRC(g, w)
=============================================================================
