----------------------------- MODULE RTWorklist -----------------------------
(***************************************************************************)
(* The worklist operations of robotools on the abstract state.             *)
(*                                                                         *)
(* T (static): [dev, unitc, k, wlmax, wlmaxc, autosplit, diti, lw]         *)
(*    dev "evo" | "fluent" | "base";  unitc = hundredths of a microlitre   *)
(*    per volume unit; k = units per microlitre (splitting rounds steps to *)
(*    whole microlitres); wlmax = worklist max_volume in units.            *)
(* S (twin): [vol, comp, hist], each a sequence indexed by labware.        *)
(*                                                                         *)
(* Every reference operation returns [out, S, recs]: the outcome class,    *)
(* the twin afterwards (also after an abort: what the sequential           *)
(* implementation leaves behind) and the records appended.                 *)
(***************************************************************************)
EXTENDS RTRobot, RTPlan, RTText, RTTips

Res(out, S, recs) == [out |-> out, S |-> S, recs |-> recs]

DefaultKw == [lc |-> "", tip |-> -1, rackid |-> "", racktype |-> "", tube |-> "", frt |-> ""]

MkAD(t, T, k, w, x, kw) ==
  [t |-> t, rack |-> T.lw[k].name, rackid |-> kw.rackid, racktype |-> kw.racktype,
   pos |-> Pos(T.dev, T.lw[k].g, w), tube |-> kw.tube, cents |-> x * T.unitc, lc |-> kw.lc,
   tiptype |-> "", tip |-> kw.tip, frt |-> kw.frt]
MkC(text) == [t |-> "C", text |-> text]
MkB == [t |-> "B"]

\* comment(label): one C record per non-empty stripped line; the harness logs the lines
LabelRecs(label) == IF label.h THEN [i \in 1..Len(CommentRecords(label.lines)) |-> MkC(CommentRecords(label.lines)[i])]
                    ELSE <<>>

\* the tip action after each pair of a transfer
\* wash schemes are logged as strings: "1".."4", "flush", "reuse"
WashNum(wash) == CASE wash = "1" -> 1 [] wash = "2" -> 2 [] wash = "3" -> 3 [] wash = "4" -> 4 [] OTHER -> 0
WashRecs(T, wash) ==
  IF wash = "reuse" THEN <<>>
  ELSE IF wash = "flush" THEN <<[t |-> "F"]>>
  ELSE IF T.diti THEN <<[t |-> "W", scheme |-> 0]>>
  ELSE <<[t |-> "W", scheme |-> WashNum(wash)]>>
WashValid(wash) == wash \in {"1", "2", "3", "4", "flush", "reuse"}

SetVol(S, k, v)  == [S EXCEPT !.vol[k] = v]
LogTo(S, k, h, l) == [S EXCEPT !.hist[k] = Log(@, h, l, S.vol[k])]

(***************************************************************************)
(* Direct labware operations                                               *)
(***************************************************************************)
NonNeg(vs) == \A i \in 1..Len(vs) : vs[i] >= 0

RefAdd(T, S, a) ==
  LET k == a.lw  L == T.lw[k]  P == ArgsPair(a.wells, a.vols)
      cs == IF a.hascomps THEN Known(a.comps) ELSE Unknown(Len(P.ws)) IN
  IF ~P.ok \/ ~NonNeg(P.vs) \/ (a.hascomps /\ Len(a.comps) # Len(P.ws)) THEN Res("other", S, <<>>)
  ELSE LET r == AddRun(L, S.vol[k], S.comp[k], P.ws, P.vs, cs, 1)
           S1 == [S EXCEPT !.vol[k] = r.vol, !.comp[k] = r.comp] IN
       Res(r.out, IF r.out = "ok" THEN LogTo(S1, k, a.label.h, a.label.l) ELSE S1, <<>>)

RefRemove(T, S, a) ==
  LET k == a.lw  L == T.lw[k]  P == ArgsPair(a.wells, a.vols) IN
  IF ~P.ok \/ ~NonNeg(P.vs) THEN Res("other", S, <<>>)
  ELSE LET r == RemoveRun(L, S.vol[k], P.ws, P.vs, 1)
           S1 == SetVol(S, k, r.vol) IN
       Res(r.out, IF r.out = "ok" THEN LogTo(S1, k, a.label.h, a.label.l) ELSE S1, <<>>)

(***************************************************************************)
(* aspirate / dispense through a worklist: the labware is updated first,   *)
(* then the comment and one record per non-zero well are appended.  A      *)
(* step above the worklist's max_volume aborts with "invalidop" at that    *)
(* well (earlier records stay); the generic base type cannot number wells. *)
(***************************************************************************)
RECURSIVE EmitWells(_, _, _, _, _, _, _, _)
EmitWells(t, T, k, ws, vs, kw, i, recs) ==
  IF i > Len(ws) THEN [out |-> "ok", recs |-> recs]
  ELSE IF vs[i] = 0 THEN EmitWells(t, T, k, ws, vs, kw, i + 1, recs)
  ELSE IF T.dev = "base" THEN [out |-> "other", recs |-> recs]
  ELSE IF vs[i] > T.wlmax THEN [out |-> "invalidop", recs |-> recs]
  ELSE EmitWells(t, T, k, ws, vs, kw, i + 1, Append(recs, MkAD(t, T, k, ws[i], vs[i], kw)))

RefAspirate(T, S, a) ==
  LET r == RefRemove(T, S, a) IN
  IF r.out # "ok" THEN r
  ELSE LET P == ArgsPair(a.wells, a.vols)
           e == EmitWells("A", T, a.lw, P.ws, P.vs, a.kw, 1, LabelRecs(a.label)) IN
       Res(e.out, r.S, e.recs)

RefDispense(T, S, a) ==
  LET r == RefAdd(T, S, a) IN
  IF r.out # "ok" THEN r
  ELSE LET P == ArgsPair(a.wells, a.vols)
           e == EmitWells("D", T, a.lw, P.ws, P.vs, a.kw, 1, LabelRecs(a.label)) IN
       Res(e.out, r.S, e.recs)

(***************************************************************************)
(* transfer                                                                *)
(***************************************************************************)
\* argument normalisation: column-major flattening, singletons broadcast to the longest
TransferTriples(a) ==
  LET s == FlattenF(a.sw)  d == FlattenF(a.dw)  v == FlattenF(a.vols)
      n == Max(Len(s), Max(Len(d), Len(v)))
      s1 == Broadcast(s, n)  d1 == Broadcast(d, n)  v1 == Broadcast(v, n)
  IN [ok |-> Len(s1) = n /\ Len(d1) = n /\ Len(v1) = n,
      x  |-> IF Len(s1) = n /\ Len(d1) = n /\ Len(v1) = n
             THEN [i \in 1..n |-> [s |-> s1[i], d |-> d1[i], v |-> v1[i]]] ELSE <<>>]

RECURSIVE RunPlan(_, _, _, _, _, _, _)
RunPlan(T, a, plan, i, S, recs, nsteps) ==
  IF i > Len(plan) THEN [out |-> "ok", S |-> S, recs |-> recs, nsteps |-> nsteps]
  ELSE LET it == plan[i] IN
  IF it.t = "B" THEN RunPlan(T, a, plan, i + 1, S, Append(recs, MkB), nsteps)
  ELSE
  LET ks == a.src  kd == a.dst
      rm == RemoveRun(T.lw[ks], S.vol[ks], <<it.s>>, <<it.v>>, 1) IN
  IF rm.out # "ok" THEN [out |-> rm.out, S |-> S, recs |-> recs, nsteps |-> nsteps]
  ELSE
  LET S1 == LogTo(SetVol(S, ks, rm.vol), ks, FALSE, "") IN
  IF it.v > T.wlmax THEN [out |-> "invalidop", S |-> S1, recs |-> recs, nsteps |-> nsteps]
  ELSE
  LET recs1 == Append(recs, MkAD("A", T, ks, it.s, it.v, a.kw))
      sc    == S1.comp[ks][RealIdx(T.lw[ks].g, it.s)]
      ad    == AddRun(T.lw[kd], S1.vol[kd], S1.comp[kd], <<it.d>>, <<it.v>>, Known(<<sc>>), 1) IN
  IF ad.out # "ok" THEN [out |-> ad.out, S |-> S1, recs |-> recs1, nsteps |-> nsteps]
  ELSE
  LET S2 == LogTo([S1 EXCEPT !.vol[kd] = ad.vol, !.comp[kd] = ad.comp], kd, FALSE, "")
      recs2 == Append(recs1, MkAD("D", T, kd, it.d, it.v, a.kw)) \o WashRecs(T, a.wash)
  IN RunPlan(T, a, plan, i + 1, S2, recs2, nsteps + 1)

TransferValid(T, a) ==
  LET tr == TransferTriples(a) IN
  /\ tr.ok
  /\ ValidMode(a.pby)
  /\ \A i \in 1..Len(tr.x) : /\ tr.x[i].v >= 0
                             /\ ValidWell(T.lw[a.src].g, tr.x[i].s)
                             /\ ValidWell(T.lw[a.dst].g, tr.x[i].d)

TransferSide(T, a) == AutoSide(IsTrough(T.lw[a.src].g), IsTrough(T.lw[a.dst].g), a.pby)

RefTransfer(T, S, a) ==
  IF T.dev = "base" THEN Res("compat", S, <<>>)
  ELSE IF ~TransferValid(T, a) THEN Res("other", S, <<>>)
  ELSE
  LET x     == TransferTriples(a).x
      side  == TransferSide(T, a)
      plan  == RefPlan(x, side, T.wlmax, T.k, T.autosplit)
      run   == RunPlan(T, a, plan, 1, S, LabelRecs(a.label), 0)
      extra == RefExtra(x, T.wlmax, T.k, T.autosplit)
      lab   == LvhLabel(a.label.h, a.label.l, extra)
  IN IF run.out # "ok" THEN Res(run.out, run.S, run.recs)
     ELSE LET S1 == run.S IN
          IF a.src = a.dst
          THEN Res("ok", [S1 EXCEPT !.hist[a.src] = Condense(@, 2 * run.nsteps, lab.h, lab.l)], run.recs)
          ELSE Res("ok", [S1 EXCEPT !.hist[a.src] = Condense(@, run.nsteps, lab.h, lab.l),
                                    !.hist[a.dst] = Condense(@, run.nsteps, lab.h, lab.l)], run.recs)

(***************************************************************************)
(* distribute: one R record from a trough column to a set of wells         *)
(***************************************************************************)
\* positions of the named source column on the device
ColumnPositions(dev, g, col) == {Pos(dev, g, <<r, col>>) : r \in 0..(IdRows(g) - 1)}
MinOf(Sx) == CHOOSE a \in Sx : \A b \in Sx : a <= b
MaxOf(Sx) == CHOOSE a \in Sx : \A b \in Sx : a >= b
AscSeq(Sx) == LET RECURSIVE Asc(_)
                  Asc(X) == IF X = {} THEN <<>> ELSE <<MinOf(X)>> \o Asc(X \ {MinOf(X)})
              IN Asc(Sx)

MkR(T, a, dps, md) ==
  LET gs == T.lw[a.src].g  sp == ColumnPositions(T.dev, gs, a.col) IN
  [t |-> "R", srack |-> T.lw[a.src].name, sid |-> a.sid, stype |-> a.stype,
   s1 |-> MinOf(sp), s2 |-> MaxOf(sp),
   drack |-> T.lw[a.dst].name, did |-> a.did, dtype |-> a.dtype,
   d1 |-> MinOf(dps), d2 |-> MaxOf(dps), volc |-> a.vol * T.unitc, lc |-> a.lc,
   reuse |-> a.reuse, md |-> md, dir |-> IF a.dir = "left_to_right" THEN 0 ELSE 1,
   excl |-> AscSeq((MinOf(dps)..MaxOf(dps)) \ dps)]

DistributeValid(T, a) ==
  LET ws == FlattenF(a.dw) IN
  /\ IsTrough(T.lw[a.src].g)
  /\ a.col >= 0 /\ a.col < T.lw[a.src].g.cols
  /\ Len(ws) >= 1
  /\ \A i \in 1..Len(ws) : ValidWell(T.lw[a.dst].g, ws[i])
  /\ a.vol >= 0
  /\ a.dir \in {"left_to_right", "right_to_left"}

RefDistribute(T, S, a) ==
  IF ~IsTrough(T.lw[a.src].g) THEN Res("value", S, <<>>)
  ELSE IF a.vol > T.wlmax THEN Res("invalidop", S, <<>>)
  ELSE IF T.dev = "base" THEN Res("other", S, <<>>)
  ELSE IF ~DistributeValid(T, a) THEN Res("other", S, <<>>)
  ELSE
  LET ws  == FlattenF(a.dw)
      n   == Len(ws)
      ks  == a.src  kd == a.dst
      sw  == <<0, a.col>>
      dps == {Pos(T.dev, T.lw[kd].g, ws[i]) : i \in 1..n}
      rm  == RemoveRun(T.lw[ks], S.vol[ks], <<sw>>, <<a.vol * n>>, 1) IN
  IF rm.out # "ok" THEN Res(rm.out, S, <<>>)
  ELSE
  LET S1 == LogTo(SetVol(S, ks, rm.vol), ks, a.label.h, a.label.l)
      sc == S1.comp[ks][a.col + 1]
      ad == AddRun(T.lw[kd], S1.vol[kd], S1.comp[kd], ws, Replicate(a.vol, n), Known(Replicate(sc, n)), 1)
      S2 == [S1 EXCEPT !.vol[kd] = ad.vol, !.comp[kd] = ad.comp] IN
  IF ad.out # "ok" THEN Res(ad.out, S2, <<>>)
  ELSE
  LET S3 == LogTo(S2, kd, a.label.h, a.label.l)
      S4 == IF ks = kd THEN [S3 EXCEPT !.hist[ks] = Condense(@, 2, a.label.h, a.label.l)] ELSE S3
      md == RefMultiDisp(a.md, a.vol, T.wlmax)
  IN Res("ok", S4, LabelRecs(a.label) \o <<MkR(T, a, dps, md)>>)

(***************************************************************************)
(* Record level contracts used when judging implementation traces.         *)
(***************************************************************************)
Body(recs) == SelectSeq(recs, LAMBDA r : r.t # "C")
Comments(recs) == SelectSeq(recs, LAMBDA r : r.t = "C")

ColOfPos(dev, g, p) ==
  IF g.vrows = 0 THEN (p - 1) \div g.rows
  ELSE IF dev = "fluent" THEN p - 1 ELSE (p - 1) \div g.vrows

SameTok(r, w) == r.t = w.t /\ (w.t = "W" => r.scheme = w.scheme)

\* C07 (i): pair discipline of the non-comment records of one transfer
PairsOK(T, a, body) ==
  LET wr == WashRecs(T, a.wash)
      stride == 2 + Len(wr) IN
  \A i \in 1..Len(body) :
     /\ body[i].t \in {"A", "D", "B"} \/ (wr # <<>> /\ SameTok(body[i], wr[1]))
     /\ body[i].t = "A" =>
          /\ i + 1 <= Len(body) /\ body[i + 1].t = "D"
          /\ body[i + 1].cents = body[i].cents /\ body[i + 1].lc = body[i].lc
          /\ body[i + 1].tip = body[i].tip
          /\ body[i].rack = T.lw[a.src].name /\ body[i + 1].rack = T.lw[a.dst].name
          /\ wr # <<>> => (i + 2 <= Len(body) /\ SameTok(body[i + 2], wr[1]))
          /\ wr = <<>> => (i + 2 <= Len(body) => body[i + 2].t \in {"A", "B"})
     /\ body[i].t = "D" => i > 1 /\ body[i - 1].t = "A"
     /\ (body[i].t \in {"W", "F"}) => i > 2 /\ body[i - 1].t = "D"
     /\ body[i].t = "B" => i > 1 /\ body[i - 1].t \in {"D", "W", "F", "B"}

\* C18 inside a transfer: the pairs come grouped by the column of the partitioning side (the automatic choice or the
\* explicit one), column groups in ascending order; the column is read off the emitted positions
SideColumnsAscend(T, a, body) ==
  LET side == TransferSide(T, a)
      k    == IF side = "source" THEN a.src ELSE a.dst
      g    == T.lw[k].g
      idx  == SelectSeq([i \in 1..Len(body) |-> i], LAMBDA i : body[i].t = (IF side = "source" THEN "A" ELSE "D"))
      col(i) == RealWell(g, CavOfPos(T.dev, g, body[i].pos))[2]
  IN \A j \in 1..(Len(idx) - 1) : col(idx[j]) <= col(idx[j + 1])

PairStarts(body) == {i \in 1..Len(body) : body[i].t = "A" /\ i + 1 <= Len(body) /\ body[i + 1].t = "D"}

\* C06 + C07 (ii): flows and step counts per (source position, destination position)
FlowsOK(T, a, x, body) ==
  LET gs == T.lw[a.src].g  gd == T.lw[a.dst].g
      key(t) == <<Pos(T.dev, gs, t.s), Pos(T.dev, gd, t.d)>>
      keys == {key(x[i]) : i \in 1..Len(x)}
      ps == PairStarts(body)
      Req(kk) == LET RECURSIVE F(_)
                     F(i) == IF i > Len(x) THEN 0 ELSE (IF key(x[i]) = kk THEN x[i].v ELSE 0) + F(i + 1)
                 IN F(1)
      ReqN(kk) == LET RECURSIVE F(_)
                      F(i) == IF i > Len(x) THEN 0
                              ELSE (IF key(x[i]) = kk
                                    THEN (IF T.autosplit THEN NSteps(x[i].v, T.wlmax) ELSE (IF x[i].v > 0 THEN 1 ELSE 0))
                                    ELSE 0) + F(i + 1)
                  IN F(1)
      mine(kk) == {i \in ps : <<body[i].pos, body[i + 1].pos>> = kk}
      Got(kk) == LET RECURSIVE G(_)
                     G(X) == IF X = {} THEN 0 ELSE LET i == CHOOSE j \in X : TRUE IN body[i].cents + G(X \ {i})
                 IN G(mine(kk))
  IN /\ \A i \in ps : <<body[i].pos, body[i + 1].pos>> \in keys
     /\ \A kk \in keys : Got(kk) = Req(kk) * T.unitc /\ Cardinality(mine(kk)) = ReqN(kk)

StepsOK(T, body) == \A i \in 1..Len(body) : body[i].t \in {"A", "D"} => body[i].cents > 0 /\ body[i].cents <= T.wlmaxc

\* C07 (iii): a break follows the last pair of every partition-side column holding a split triple
BreaksOK(T, a, x, body) ==
  LET side == TransferSide(T, a)
      g  == IF side = "source" THEN T.lw[a.src].g ELSE T.lw[a.dst].g
      ps == PairStarts(body)
      pc(i) == IF side = "source" THEN ColOfPos(T.dev, g, body[i].pos) ELSE ColOfPos(T.dev, g, body[i + 1].pos)
      stride == 2 + Len(WashRecs(T, a.wash))
  IN \A c \in SplitCols(x, side, T.wlmax) :
        LET mine == {i \in ps : pc(i) = c}
            last == CHOOSE i \in mine : \A j \in mine : j <= i
        IN mine # {} /\ last + stride <= Len(body) /\ body[last + stride].t = "B"

\* the twin after a transfer that succeeded: every triple moved (order free)
ApplyTriples(T, a, x, vol) ==
  LET gs == T.lw[a.src].g  gd == T.lw[a.dst].g
      RECURSIVE P(_, _)
      P(v, i) == IF i > Len(x) THEN v
                 ELSE P([[v EXCEPT ![a.src][RealIdx(gs, x[i].s)] = @ - x[i].v]
                            EXCEPT ![a.dst][RealIdx(gd, x[i].d)] = @ + x[i].v], i + 1)
  IN P(vol, 1)

ExtraPairs(T, x) == LET RECURSIVE E(_)
                        E(i) == IF i > Len(x) THEN 0
                                ELSE (IF T.autosplit /\ x[i].v > 0 THEN NSteps(x[i].v, T.wlmax) - 1 ELSE 0) + E(i + 1)
                    IN E(1)
Moved(x) == \E i \in 1..Len(x) : x[i].v > 0
=============================================================================
