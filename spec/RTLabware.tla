------------------------------ MODULE RTLabware ------------------------------
(***************************************************************************)
(* The digital twin of one labware: volumes, composition and history.      *)
(*                                                                         *)
(* L  = [name, g, minv, maxv]              static description               *)
(* vol  : sequence of integers, one per real well, column-major            *)
(* comp : sequence (per real well) of SETS of <<component, num, den>>      *)
(*        listing the components with a positive fraction                  *)
(* hist : sequence of [h |-> has a label, l |-> label, s |-> snapshot]     *)
(*                                                                         *)
(* Volumes are exact integers in the trace's unit, fractions are exact     *)
(* rationals, so ideal volumetric mixing (C05) is computed without error.  *)
(***************************************************************************)
EXTENDS RTGeom

(***************************************************************************)
(* Composition of one well                                                 *)
(***************************************************************************)
CNames(cs) == {t[1] : t \in cs}
Frac(cs, nm) == IF \E t \in cs : t[1] = nm
                THEN LET t == CHOOSE u \in cs : u[1] = nm IN <<t[2], t[3]>>
                ELSE RZero

\* ideal mixing of v units with composition cs and a units with composition gs
MixComp(cs, v, gs, a) ==
  IF v + a = 0 \/ a = 0 THEN cs
  ELSE LET One(nm) == LET q == RMix(Frac(cs, nm), v, Frac(gs, nm), a) IN <<nm, q[1], q[2]>>
           all == {One(nm) : nm \in CNames(cs) \cup CNames(gs)}
       IN {t \in all : t[2] > 0}

CompSum(cs) == LET RECURSIVE S(_)
                   S(T) == IF T = {} THEN RZero
                           ELSE LET t == CHOOSE u \in T : TRUE IN RAdd(<<t[2], t[3]>>, S(T \ {t}))
               IN S(cs)
CompNormalised(cs) == CompSum(cs) = ROne
CompInUnit(cs) == \A t \in cs : t[3] > 0 /\ t[2] >= 0 /\ t[2] <= t[3]
\* one entry per component name
CompFunctional(cs) == \A t, u \in cs : t[1] = u[1] => t = u

(***************************************************************************)
(* Sequential per-well updates, exactly as add()/remove() must behave:     *)
(* wells are processed in order, the first update that would leave         *)
(* [minv, maxv] aborts the call with the offending well unchanged; the     *)
(* updates before it stay applied.  The result reports how many were done. *)
(* A given composition is [known |-> BOOLEAN, c |-> set].                  *)
(***************************************************************************)
RECURSIVE AddRun(_, _, _, _, _, _, _)
AddRun(L, vol, comp, ws, vs, cs, i) ==
  IF i > Len(ws) THEN [out |-> "ok", vol |-> vol, comp |-> comp, n |-> Len(ws)]
  ELSE IF ~ValidWell(L.g, ws[i]) THEN [out |-> "other", vol |-> vol, comp |-> comp, n |-> i - 1]
  ELSE LET idx == RealIdx(L.g, ws[i])
           nv  == vol[idx] + vs[i]
       IN IF nv > L.maxv THEN [out |-> "overflow", vol |-> vol, comp |-> comp, n |-> i - 1]
          ELSE AddRun(L, [vol EXCEPT ![idx] = nv],
                      IF cs[i].known
                      THEN [comp EXCEPT ![idx] = MixComp(comp[idx], vol[idx], cs[i].c, vs[i])]
                      ELSE comp,
                      ws, vs, cs, i + 1)

RECURSIVE RemoveRun(_, _, _, _, _)
RemoveRun(L, vol, ws, vs, i) ==
  IF i > Len(ws) THEN [out |-> "ok", vol |-> vol, n |-> Len(ws)]
  ELSE IF ~ValidWell(L.g, ws[i]) THEN [out |-> "other", vol |-> vol, n |-> i - 1]
  ELSE LET idx == RealIdx(L.g, ws[i])
           nv  == vol[idx] - vs[i]
       IN IF nv < L.minv THEN [out |-> "underflow", vol |-> vol, n |-> i - 1]
          ELSE RemoveRun(L, [vol EXCEPT ![idx] = nv], ws, vs, i + 1)

\* the state after only the first n updates (used by the contract for aborted calls)
AddPrefix(L, vol, ws, vs, n) ==
  LET RECURSIVE P(_, _)
      P(v, i) == IF i > n THEN v ELSE P([v EXCEPT ![RealIdx(L.g, ws[i])] = @ + vs[i]], i + 1)
  IN P(vol, 1)
RemovePrefix(L, vol, ws, vs, n) ==
  LET RECURSIVE P(_, _)
      P(v, i) == IF i > n THEN v ELSE P([v EXCEPT ![RealIdx(L.g, ws[i])] = @ - vs[i]], i + 1)
  IN P(vol, 1)

\* argument pairing (C04): column-major flattening, a single volume applies to every well
ArgsPair(wells, vols) ==
  LET ws == FlattenF(wells)
      v0 == FlattenF(vols)
  IN [ws |-> ws, vs |-> Broadcast(v0, Len(ws)), ok |-> Len(v0) = 1 \/ Len(v0) = Len(ws)]

Unknown(n) == [i \in 1..n |-> [known |-> FALSE, c |-> {}]]
Known(cs)  == [i \in 1..Len(cs) |-> [known |-> TRUE, c |-> cs[i]]]

(***************************************************************************)
(* History                                                                 *)
(***************************************************************************)
Entry(h, l, s) == [h |-> h, l |-> l, s |-> s]
Log(hist, h, l, vol) == Append(hist, Entry(h, l, vol))
\* replace the last n entries by one (condense_log, with n <= Len(hist) entries removed)
Condense(hist, n, h, l) ==
  LET keep == Max(0, Len(hist) - n) IN
  Append(SubSeq(hist, 1, keep), Entry(h, l, hist[Len(hist)].s))

\* label of a transfer with extra large-volume steps
LvhLabel(h, l, extra) ==
  IF extra = 0 THEN [h |-> h, l |-> l]
  ELSE IF h /\ l # "" THEN [h |-> TRUE, l |-> l \o " (" \o ToString(extra) \o " LVH steps)"]
  ELSE [h |-> TRUE, l |-> ToString(extra) \o " LVH steps"]

(***************************************************************************)
(* State invariants of one labware (C02, C05)                              *)
(***************************************************************************)
VolumesWithinLimits(L, vol) == \A i \in 1..Len(vol) : vol[i] >= 0 /\ vol[i] <= L.maxv

CompSane(vol, comp) ==
  \A i \in 1..Len(vol) : CompInUnit(comp[i]) /\ CompFunctional(comp[i])

\* wells filled exclusively with liquid of known composition are normalised
CompNormalisedAll(vol, comp) ==
  \A i \in 1..Len(vol) : vol[i] > 0 => CompNormalised(comp[i])

\* total amount of one component in a labware (volume x fraction), a rational
Amount(vol, comp, nm) ==
  LET RECURSIVE A(_)
      A(i) == IF i > Len(vol) THEN RZero ELSE RAdd(RMulI(Frac(comp[i], nm), vol[i]), A(i + 1))
  IN A(1)

(***************************************************************************)
(* Constructors (C20).  A specification that the harness could pass:       *)
(*   [kind, name, rows, cols, vrows, minv, maxv, init (flat column-major   *)
(*    real-well volumes), names (per real well: [h, l])]                   *)
(***************************************************************************)
DefaultName(name, g, i) ==
  IF g.vrows > 0
  THEN (IF g.cols > 1 THEN name \o ".column_" \o Pad2(RealWell(g, i)[2] + 1) ELSE name)
  ELSE (IF g.rows > 1 THEN name \o "." \o WellId(RealWell(g, i)) ELSE name)

InitComp(name, g, init, names) ==
  [i \in 1..NReal(g) |->
     IF init[i] = 0 THEN {}
     ELSE {<<IF names[i].h THEN names[i].l ELSE DefaultName(name, g, i), 1, 1>>}]

InitHist(init) == <<Entry(TRUE, "initial", init)>>

(***************************************************************************)
(* A constructor call as logged by the harness (sizes: [cls, v] where cls  *)
(* = "float" stands for the non-integer v + 0.5; limits: [cls, v] with cls *)
(* in {"num", "nan", "none"}; initial volumes: [form, vals, nan, ncols]).  *)
(***************************************************************************)
SizeOK(sz) == sz.cls = "int" /\ sz.v >= 1

CtorGeom(c) ==
  IF c.kind = "trough" THEN [rows |-> 1, cols |-> c.cols.v, vrows |-> c.vrows.v]
  ELSE [rows |-> c.rows.v, cols |-> c.cols.v, vrows |-> IF c.vrows.given THEN c.vrows.v ELSE 0]

SizesValid(c) ==
  IF c.kind = "trough"
  THEN SizeOK(c.vrows) /\ SizeOK(c.cols) /\ c.vrows.v <= MaxRows
  ELSE /\ SizeOK(c.rows) /\ SizeOK(c.cols) /\ c.rows.v <= MaxRows
       /\ c.vrows.given => (SizeOK(c.vrows) /\ c.rows.v = 1 /\ c.vrows.v <= MaxRows)

LimitsValid(c) == /\ c.minv.cls = "num" /\ c.maxv.cls = "num"
                  /\ c.minv.v >= 0 /\ c.maxv.v > c.minv.v

\* the initial volumes as a rows x cols matrix (real wells), laid out as given
InitMatrix(c, g) ==
  LET i == c.init IN
  [r \in 1..g.rows |-> [cc \in 1..g.cols |->
     IF i.form = "none" THEN 0
     ELSE IF i.form = "scalar" THEN i.vals[1]
     ELSE IF i.form = "percol" THEN i.vals[cc]
     ELSE IF i.form = "flat" THEN i.vals[(r - 1) * g.cols + cc]
     ELSE i.vals[(r - 1) * i.ncols + cc]]]

InitShapeValid(c, g) ==
  LET i == c.init  n == Len(i.vals) IN
  CASE i.form = "none"   -> TRUE
    [] i.form = "scalar" -> n = 1
    [] i.form = "percol" -> n = g.cols
    [] i.form = "flat"   -> n = g.rows * g.cols
    [] i.form = "2d"     -> i.ncols = g.cols /\ n = g.rows * g.cols
    [] OTHER -> FALSE

InitValuesValid(c) ==
  LET i == c.init IN
  \A k \in 1..Len(i.vals) : ~i.nan[k] /\ i.vals[k] >= 0 /\ i.vals[k] <= c.maxv.v

\* initial volumes per real well, column-major
InitFlat(c, g) == LET m == InitMatrix(c, g) IN [k \in 1..NReal(g) |-> m[RealWell(g, k)[1] + 1][RealWell(g, k)[2] + 1]]

NamesValid(c, g) ==
  LET nm == c.names  flat == InitFlat(c, g) IN
  IF ~nm.given THEN TRUE
  ELSE IF c.kind = "trough"
  THEN IF nm.isstr THEN g.cols = 1 /\ flat[1] > 0
       ELSE /\ Len(nm.list) = g.cols
            /\ \A k \in 1..g.cols : nm.list[k].h => flat[k] > 0
  ELSE \A k \in 1..Len(nm.wells) :
          LET e == nm.wells[k] IN
          /\ e.w[1] >= 0 /\ e.w[1] < g.rows /\ e.w[2] >= 0 /\ e.w[2] < g.cols
          /\ e.h => flat[RealIdx([rows |-> g.rows, cols |-> g.cols, vrows |-> 0], e.w)] > 0

ValidSpec(c) ==
  /\ SizesValid(c)
  /\ LimitsValid(c)
  /\ LET g == CtorGeom(c) IN
     /\ InitShapeValid(c, g)
     /\ InitValuesValid(c)
     /\ NamesValid(c, g)

\* per real well: the name given by the caller, if any
GivenNames(c, g) ==
  LET nm == c.names IN
  [k \in 1..NReal(g) |->
     IF ~nm.given THEN [h |-> FALSE, l |-> ""]
     ELSE IF c.kind = "trough"
     THEN (IF nm.isstr THEN [h |-> TRUE, l |-> nm.str] ELSE [h |-> nm.list[k].h, l |-> nm.list[k].l])
     ELSE LET hits == {j \in 1..Len(nm.wells) : RealIdx([rows |-> g.rows, cols |-> g.cols, vrows |-> 0], nm.wells[j].w) = k /\ nm.wells[j].h}
          IN IF hits = {} THEN [h |-> FALSE, l |-> ""]
             ELSE [h |-> TRUE, l |-> nm.wells[CHOOSE j \in hits : TRUE].l]]

\* what a successfully constructed labware must look like (C20)
Consistent(c, o) ==
  LET g == CtorGeom(c) IN
  /\ o.wells = IdArray(g)
  /\ o.shape = <<IdRows(g), g.cols>>
  /\ o.nidx = NIds(g) /\ Len(o.idx) = NIds(g)
  /\ \A k \in 1..NIds(g) : o.idx[k] = RealRC(g, <<(k - 1) \div g.cols, (k - 1) % g.cols>>)
  /\ o.volshape = <<g.rows, g.cols>>
  /\ o.finite
  /\ o.minv >= 0 /\ o.minv < o.maxv
  /\ \A k \in 1..Len(o.vol) : o.vol[k] >= 0 /\ o.vol[k] <= o.maxv
  /\ o.hn = 1 /\ o.last.h /\ o.last.l = "initial" /\ o.last.s = o.vol
  /\ o.trough = (g.vrows > 0)
  /\ Len(o.comp) = Len(o.vol)
  /\ \A k \in 1..Len(o.vol) :
        IF o.vol[k] > 0 THEN Len(o.comp[k]) = 1 /\ o.comp[k][1][2] = 1 /\ o.comp[k][1][3] = 1
        ELSE o.comp[k] = <<>>
=============================================================================
