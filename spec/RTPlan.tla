------------------------------- MODULE RTPlan -------------------------------
(***************************************************************************)
(* Large volume splitting (C06), column partitioning (C18) and the shape   *)
(* of a transfer plan (C07).  Each notion has a CONTRACT (what the         *)
(* property demands, leaving ties and split shapes free) and a REFERENCE   *)
(* (a deterministic function mirroring the implementation).  TLC checks    *)
(* reference \subseteq contract on bounded domains; implementations are    *)
(* judged against the contract.                                            *)
(***************************************************************************)
EXTENDS RTGeom

(***************************************************************************)
(* C06: splitting a volume v into steps of at most M (all in trace units). *)
(***************************************************************************)
NSteps(v, M) == IF v = 0 THEN 0 ELSE Max(1, CeilDiv(v, M))

IsValidSplit(v, M, steps) ==
  /\ Len(steps) = NSteps(v, M)
  /\ \A i \in 1..Len(steps) : steps[i] > 0 /\ steps[i] <= M
  /\ SumSeq(steps) = v

\* Reference: balanced split whose step is rounded up to whole microlitres
\* (k units per microlitre) and capped at M.  Cap = FALSE models the
\* implementation before the repair of finding F-01.
RefSplitG(v, M, k, Cap) ==
  IF v = 0 THEN <<>>
  ELSE IF v < M THEN <<v>>
  ELSE LET n    == CeilDiv(v, M)
           raw  == CeilDiv(v, n * k) * k
           step == IF Cap THEN Min(raw, M) ELSE raw
       IN  [i \in 1..n |-> IF i < n THEN step ELSE v - (n - 1) * step]
RefSplit(v, M, k) == RefSplitG(v, M, k, TRUE)

\* reagent distribution: multi-dispenses per aspiration must fit the diluter
MultiDispOK(md0, v, M, md) ==
  /\ md <= md0
  /\ md * v <= M
  /\ (md0 * v <= M => md = md0)                    \* reduced only if needed
  /\ (md0 * v > M => (md + 1) * v > M)             \* and only as far as needed
RefMultiDisp(md0, v, M) == IF md0 * v > M THEN M \div v ELSE md0

(***************************************************************************)
(* C18: partitioning triples [s, d, v] by the column of one side.          *)
(***************************************************************************)
SideWell(t, side) == IF side = "source" THEN t.s ELSE t.d
Col(t, side) == SideWell(t, side)[2]
Row(t, side) == SideWell(t, side)[1]

AutoSide(srcTrough, dstTrough, mode) ==
  IF mode = "auto"
  THEN (IF srcTrough /\ ~dstTrough THEN "destination" ELSE "source")
  ELSE mode
ValidMode(mode) == mode \in {"auto", "source", "destination"}

IsPartition(x, side, groups) ==
  /\ SameBag(Concat(groups), x)
  /\ \A gi \in 1..Len(groups) :
        /\ groups[gi] # <<>>
        /\ \A i \in 1..Len(groups[gi]) : Col(groups[gi][i], side) = Col(groups[gi][1], side)
        /\ \A i \in 1..(Len(groups[gi]) - 1) : Row(groups[gi][i], side) <= Row(groups[gi][i + 1], side)
  /\ \A gi \in 1..(Len(groups) - 1) : Col(groups[gi][1], side) < Col(groups[gi + 1][1], side)

\* Reference: groups in ascending column order, stable sort by row inside
SortedCols(x, side) ==
  LET cs == {Col(x[i], side) : i \in 1..Len(x)}
      RECURSIVE Asc(_)
      Asc(S) == IF S = {} THEN <<>>
                ELSE LET m == CHOOSE a \in S : \A b \in S : a <= b IN <<m>> \o Asc(S \ {m})
  IN Asc(cs)

RefPartition(x, side) ==
  LET cols == SortedCols(x, side) IN
  [gi \in 1..Len(cols) |->
     LET members == SelectSeq(x, LAMBDA t : Col(t, side) = cols[gi])
         keys    == [i \in 1..Len(members) |-> Row(members[i], side)]
         ord     == StableOrder(keys, LAMBDA a, b : a < b)
     IN  [p \in 1..Len(members) |-> members[ord[p]]]]

(***************************************************************************)
(* C07: the plan of one transfer as a sequence of items                    *)
(*   [t |-> "pair", s, d, v]   one aspirate + dispense (+ tip action)      *)
(*   [t |-> "B"]               break                                       *)
(* Reference plan: mirrors the nested loops of transfer().                 *)
(***************************************************************************)
Pair(s, d, v) == [t |-> "pair", s |-> s, d |-> d, v |-> v]
Break == [t |-> "B"]

SplitOf(v, M, k, autosplit) == IF autosplit THEN RefSplit(v, M, k) ELSE <<v>>

RefGroupPlan(group, M, k, autosplit) ==
  LET vl    == [i \in 1..Len(group) |-> SplitOf(group[i].v, M, k, autosplit)]
      npart == LET RECURSIVE Mx(_)
                   Mx(i) == IF i > Len(vl) THEN 0 ELSE Max(Len(vl[i]), Mx(i + 1))
               IN Mx(1)
      PairsOf(p) == LET idx == SelectSeq([i \in 1..Len(group) |-> i],
                                         LAMBDA i : Len(vl[i]) >= p /\ vl[i][p] > 0)
                    IN [j \in 1..Len(idx) |-> Pair(group[idx[j]].s, group[idx[j]].d, vl[idx[j]][p])]
      Part(p) == PairsOf(p) \o (IF npart > 1 /\ Len(PairsOf(p)) > 1 /\ p # npart THEN <<Break>> ELSE <<>>)
  IN Concat([p \in 1..npart |-> Part(p)]) \o (IF npart > 1 THEN <<Break>> ELSE <<>>)

RefPlan(x, side, M, k, autosplit) ==
  LET groups == RefPartition(x, side) IN
  Concat([gi \in 1..Len(groups) |-> RefGroupPlan(groups[gi], M, k, autosplit)])

\* number of extra pairs caused by splitting (the "LVH steps" of the history label)
RefExtra(x, M, k, autosplit) ==
  LET RECURSIVE E(_)
      E(i) == IF i > Len(x) THEN 0
              ELSE Max(0, Len(SplitOf(x[i].v, M, k, autosplit)) - 1) + E(i + 1)
  IN E(1)

PlanPairs(plan) == SelectSeq(plan, LAMBDA it : it.t = "pair")

(***************************************************************************)
(* Contract on a plan (C06 + C07 ii, iii), order free:                     *)
(* for every (source well, destination well) the emitted volumes sum to    *)
(* the requested ones and are split into exactly the demanded number of    *)
(* steps, each 0 < step <= M; a break follows the last pair of every       *)
(* partition-side column that contains a split triple.                     *)
(***************************************************************************)
ReqFlow(x, s, d) == LET RECURSIVE F(_)
                        F(i) == IF i > Len(x) THEN 0
                                ELSE (IF x[i].s = s /\ x[i].d = d THEN x[i].v ELSE 0) + F(i + 1)
                    IN F(1)
ReqCount(x, s, d, M) == LET RECURSIVE F(_)
                            F(i) == IF i > Len(x) THEN 0
                                    ELSE (IF x[i].s = s /\ x[i].d = d THEN NSteps(x[i].v, M) ELSE 0) + F(i + 1)
                        IN F(1)
PlanFlow(plan, s, d) == LET RECURSIVE F(_)
                            F(i) == IF i > Len(plan) THEN 0
                                    ELSE (IF plan[i].t = "pair" /\ plan[i].s = s /\ plan[i].d = d
                                          THEN plan[i].v ELSE 0) + F(i + 1)
                        IN F(1)
PlanCount(plan, s, d) == Cardinality({i \in 1..Len(plan) : plan[i].t = "pair" /\ plan[i].s = s /\ plan[i].d = d})

SplitCols(x, side, M) == {Col(x[i], side) : i \in {j \in 1..Len(x) : x[j].v > M}}

PlanOK(x, side, M, plan) ==
  LET sd == {<<x[i].s, x[i].d>> : i \in 1..Len(x)}
      pairsIdx == {i \in 1..Len(plan) : plan[i].t = "pair"}
  IN
  /\ \A i \in pairsIdx : <<plan[i].s, plan[i].d>> \in sd /\ plan[i].v > 0 /\ plan[i].v <= M
  /\ \A p \in sd : /\ PlanFlow(plan, p[1], p[2]) = ReqFlow(x, p[1], p[2])
                   /\ PlanCount(plan, p[1], p[2]) = ReqCount(x, p[1], p[2], M)
  /\ \A c \in SplitCols(x, side, M) :
        LET mine == {i \in pairsIdx : SideWell(plan[i], side)[2] = c}
            last == CHOOSE i \in mine : \A j \in mine : j <= i
        IN mine # {} /\ last + 1 <= Len(plan) /\ plan[last + 1].t = "B"
=============================================================================
