------------------------------ MODULE RTSelect ------------------------------
(***************************************************************************)
(* The EVOware well selection string (C12).                                *)
(*                                                                         *)
(* For an R x C labware: two hex digits for C, two for R, then the wells   *)
(* in column-major order packed seven per character, least significant bit *)
(* first, each character = 48 + bits.  Strings are handled as sequences of *)
(* code points.  A selection is a set of wells <<r, c>> (0-based).         *)
(***************************************************************************)
EXTENDS RTGeom

HexDigitCode(d) == IF d < 10 THEN 48 + d ELSE 55 + d     \* '0'..'9', 'A'..'F'
Hex2(n) == <<HexDigitCode((n \div 16) % 16), HexDigitCode(n % 16)>>

\* column-major serial number (0-based) of a well of an R-row labware
Serial(R, w) == w[2] * R + w[1]

NChars(R, C) == CeilDiv(R * C, 7)

CharBits(R, C, sel, k) ==    \* k-th data character (1-based): bits j = 0..6 for serial 7(k-1)+j
  LET RECURSIVE B(_)
      B(j) == IF j > 6 THEN 0
              ELSE LET s == 7 * (k - 1) + j
                       w == <<s % R, s \div R>>
                   IN (IF s < R * C /\ w \in sel THEN Pow2(j) ELSE 0) + B(j + 1)
  IN B(0)

Encode(R, C, sel) == Hex2(C) \o Hex2(R) \o [k \in 1..NChars(R, C) |-> 48 + CharBits(R, C, sel, k)]

\* independent decoder: from code points back to dimensions and wells
HexVal(c) == IF c >= 48 /\ c <= 57 THEN c - 48 ELSE IF c >= 65 /\ c <= 70 THEN c - 55 ELSE -1000
DecodeCols(s) == HexVal(s[1]) * 16 + HexVal(s[2])
DecodeRows(s) == HexVal(s[3]) * 16 + HexVal(s[4])
DecodeWells(s) ==
  LET R == DecodeRows(s)  C == DecodeCols(s) IN
  {w \in {<<r, c>> : r \in 0..(R - 1), c \in 0..(C - 1)} :
      LET n == Serial(R, w) IN
      4 + (n \div 7) + 1 <= Len(s) /\ Bit(s[4 + (n \div 7) + 1] - 48, n % 7) = 1}

\* all bits of the data characters that do not belong to a well are zero, and every character is 48..175
PaddingZero(s) ==
  LET R == DecodeRows(s)  C == DecodeCols(s) IN
  \A k \in 5..Len(s) :
     /\ s[k] >= 48 /\ s[k] < 48 + 128
     /\ \A j \in 0..6 : (7 * (k - 5) + j >= R * C) => Bit(s[k] - 48, j) = 0

Faithful(R, C, sel, s) ==
  /\ Len(s) = 4 + NChars(R, C)
  /\ DecodeRows(s) = R /\ DecodeCols(s) = C
  /\ DecodeWells(s) = sel
  /\ PaddingZero(s)
=============================================================================
