---------------------------- MODULE RTTransform ----------------------------
(***************************************************************************)
(* Well transforms (C15) and get_trough_wells (C19).                       *)
(* Wells are <<r, c>> (0-based); a shape is <<R, C>>.                      *)
(***************************************************************************)
EXTENDS RTGeom

InShape(sh, w) == w[1] >= 0 /\ w[1] < sh[1] /\ w[2] >= 0 /\ w[2] < sh[2]
ShapeWells(sh) == {<<r, c>> : r \in 0..(sh[1] - 1), c \in 0..(sh[2] - 1)}

(***************************************************************************)
(* get_trough_wells: the i-th result (1-based) is the ((i-1) mod len)-th   *)
(* of the given wells read in column-major order.                          *)
(***************************************************************************)
TroughWells(n, ws) == [i \in 1..n |-> ws[((i - 1) % Len(ws)) + 1]]

(***************************************************************************)
(* Shifting: A01 of plate A lands on the anchor well of plate B.           *)
(***************************************************************************)
ShiftFits(shA, shB, anchor) ==
  /\ InShape(shB, anchor)
  /\ shA[1] + anchor[1] <= shB[1]
  /\ shA[2] + anchor[2] <= shB[2]

Shift(anchor, w)   == <<w[1] + anchor[1], w[2] + anchor[2]>>
Unshift(anchor, w) == <<w[1] - anchor[1], w[2] - anchor[2]>>

(***************************************************************************)
(* Rotation of an R x C plate: the rotated plate is C x R.                 *)
(* clockwise: (r, c) -> (c, R-1-r); counter-clockwise: (r, c) -> (C-1-c, r)*)
(***************************************************************************)
RotCW(sh, w)  == <<w[2], sh[1] - 1 - w[1]>>
RotCCW(sh, w) == <<sh[2] - 1 - w[2], w[1]>>
Swap(sh) == <<sh[2], sh[1]>>

\* lemmas for MC_Transform
RotInverse(sh) ==
  \A w \in ShapeWells(sh) :
     /\ InShape(Swap(sh), RotCW(sh, w))
     /\ InShape(Swap(sh), RotCCW(sh, w))
     /\ RotCCW(Swap(sh), RotCW(sh, w)) = w
     /\ RotCW(Swap(sh), RotCCW(sh, w)) = w

RotFourTimes(sh) ==
  \A w \in ShapeWells(sh) :
     RotCW(Swap(sh), RotCW(sh, RotCW(Swap(sh), RotCW(sh, w)))) = w

RotBijective(sh) ==
  {RotCW(sh, w) : w \in ShapeWells(sh)} = ShapeWells(Swap(sh))

ShiftInverse(shA, shB, anchor) ==
  ShiftFits(shA, shB, anchor) =>
     \A w \in ShapeWells(shA) :
        /\ InShape(shB, Shift(anchor, w))
        /\ Unshift(anchor, Shift(anchor, w)) = w

(***************************************************************************)
(* Randomisation contract.  The table maps every well of the plate to a    *)
(* well; numpy's generator is not modelled, only what the property states. *)
(* A table is a sequence of <<from, to>> pairs.                            *)
(***************************************************************************)
TableIsPermutation(sh, tab) ==
  /\ {p[1] : p \in Range(tab)} = ShapeWells(sh)
  /\ {p[2] : p \in Range(tab)} = ShapeWells(sh)
  /\ Len(tab) = sh[1] * sh[2]

TableKeepsMode(mode, tab) ==
  \A p \in Range(tab) :
     /\ mode = "row"    => p[1][1] = p[2][1]
     /\ mode = "column" => p[1][2] = p[2][2]

Lookup(tab, w) == (CHOOSE p \in Range(tab) : p[1] = w)[2]
LookupRev(tab, w) == (CHOOSE p \in Range(tab) : p[2] = w)[1]
=============================================================================
