----------------------------- MODULE RTDilution -----------------------------
(***************************************************************************)
(* The contract of a dilution plan (C14).                                  *)
(*                                                                         *)
(* p = [R, C, stock (rational), vmax (per column, whole microlitres),      *)
(*      mint10 (min_transfer in tenths of a microlitre),                   *)
(*      instr: sequence of [col (1-based), src (0 = stock, else a column), *)
(*                          v (per row, whole microlitres), whole],        *)
(*      x: rows x columns of rationals (reported concentrations),          *)
(*      vstock, vdiluent]                                                  *)
(***************************************************************************)
EXTENDS RTNum

InstrOf(p, c) == CHOOSE i \in 1..Len(p.instr) : p.instr[i].col = c

\* every column is prepared exactly once, from the stock or from a column prepared earlier
PlanOrdered(p) ==
  /\ Len(p.instr) = p.C
  /\ {p.instr[i].col : i \in 1..Len(p.instr)} = 1..p.C
  /\ \A i \in 1..Len(p.instr) :
        /\ Len(p.instr[i].v) = p.R
        /\ p.instr[i].src = 0 \/ \E j \in 1..(i - 1) : p.instr[j].col = p.instr[i].src

PlanWhole(p) == \A i \in 1..Len(p.instr) : p.instr[i].whole

PlanBounds(p) ==
  \A i \in 1..Len(p.instr) : \A r \in 1..p.R :
     /\ p.instr[i].v[r] * 10 >= p.mint10
     /\ p.instr[i].v[r] <= p.vmax[p.instr[i].col]

\* a column is never asked for more than it holds
Drawn(p, s, r) == LET RECURSIVE D(_)
                      D(i) == IF i > Len(p.instr) THEN 0
                              ELSE (IF p.instr[i].src = s THEN p.instr[i].v[r] ELSE 0) + D(i + 1)
                  IN D(1)
PlanBudget(p) == \A s \in 1..p.C : \A r \in 1..p.R : Drawn(p, s, r) <= p.vmax[s]

\* concentrations implied by the instructions, in exact arithmetic (follows the instruction order)
ImpliedConc(p, r, c) ==
  LET RECURSIVE X(_)
      X(cc) == LET it == p.instr[InstrOf(p, cc)]
                   base == IF it.src = 0 THEN p.stock ELSE X(it.src)
               IN RDivI(RMulI(base, it.v[r]), p.vmax[cc])
  IN X(c)
PlanConcentrations(p) == \A r \in 1..p.R : \A c \in 1..p.C : p.x[r][c] = ImpliedConc(p, r, c)

PlanTotals(p) ==
  LET RECURSIVE S(_)
      S(i) == IF i > Len(p.instr) THEN 0
              ELSE (IF p.instr[i].src = 0 THEN SumSeq(p.instr[i].v) ELSE 0) + S(i + 1)
      allv == SumSeq([i \in 1..Len(p.instr) |-> SumSeq(p.instr[i].v)])
  IN /\ p.vstock = S(1)                                   \* exactly what the stock transfers take
     /\ p.vdiluent >= p.R * SumSeq(p.vmax) - allv          \* enough diluent to fill every well up to vmax
=============================================================================
