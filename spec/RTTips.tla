------------------------------- MODULE RTTips -------------------------------
(***************************************************************************)
(* Tip selections and the Tecan tip bit mask (C10).                        *)
(*                                                                         *)
(* A tip symbol is [k |-> "int", v |-> n]  (a plain number),               *)
(*                 [k |-> "tip", v |-> n]  (the Tip member T<n>, n in 1..8)*)
(*                 [k |-> "any", v |-> 0]  (Tip.Any)                        *)
(*                 [k |-> "bad", v |-> 0]  (anything else: float, str, ..)  *)
(* A tip argument is [k |-> "one", s |-> symbol] or                        *)
(*                   [k |-> "coll", x |-> sequence of symbols].            *)
(***************************************************************************)
EXTENDS RTNum

TipBit(n) == Pow2(n - 1)

SymValid(s) == \/ s.k = "tip" /\ s.v \in 1..8
               \/ s.k = "int" /\ s.v \in 1..8
SymNumber(s) == s.v

\* OR of the members = sum over the distinct tip numbers
MaskOfSet(S) == LET RECURSIVE Sum(_)
                    Sum(T) == IF T = {} THEN 0
                              ELSE LET n == CHOOSE x \in T : TRUE IN TipBit(n) + Sum(T \ {n})
                IN Sum(S)

TipArgValid(a) ==
  IF a.k = "one" THEN SymValid(a.s) \/ a.s.k = "any"
  ELSE \A i \in 1..Len(a.x) : SymValid(a.x[i])

\* the value of the tip-mask field; -1 stands for the empty field of Tip.Any
TipArgMask(a) ==
  IF a.k = "one" THEN (IF a.s.k = "any" THEN -1 ELSE TipBit(SymNumber(a.s)))
  ELSE MaskOfSet({SymNumber(a.x[i]) : i \in 1..Len(a.x)})

\* tips of an EVO script command: sequence of valid symbols (no Any)
TipNumbers(x) == [i \in 1..Len(x) |-> SymNumber(x[i])]

\* lemmas (MC_Tips): the mask depends only on the set of tip numbers
MaskIndependent(a, b) ==
  (a.k = "coll" /\ b.k = "coll" /\ TipArgValid(a) /\ TipArgValid(b)
     /\ {SymNumber(a.x[i]) : i \in 1..Len(a.x)} = {SymNumber(b.x[i]) : i \in 1..Len(b.x)})
  => TipArgMask(a) = TipArgMask(b)

MaskBits(m, S) == \A n \in 1..8 : Bit(m, n - 1) = (IF n \in S THEN 1 ELSE 0)
=============================================================================
