------------------------------- MODULE RTJudge -------------------------------
(***************************************************************************)
(* Verdict bookkeeping for the trace specifications.                       *)
(*                                                                         *)
(* A clause is [n |-> name, a |-> applicable, ok |-> applicable => holds]. *)
(* Judging a step never blocks the behaviour: failed clauses are appended  *)
(* to TLC register 1, applicability counters live in register 2, and the   *)
(* postcondition writes both (plus the number of consumed events) to the   *)
(* file named by the environment variable OUT_FILE.  Needs -workers 1.     *)
(***************************************************************************)
EXTENDS Integers, Sequences, FiniteSets, TLC, TLCExt, Json, IOUtils

Cl(name, A, H) == [n |-> name, a |-> A, ok |-> (A => H)]

Failed(S) == {x.n : x \in {y \in S : ~y.ok}}
Appl(S)   == {x.n : x \in {y \in S : y.a}}

InitRegisters == /\ TLCSet(1, <<>>)
                 /\ TLCSet(2, [k \in {} |-> 0])
                 /\ TLCSet(3, 0)

\* every clause that was evaluated gets a counter (0 = never applicable: vacuity is visible)
Bump(names, appl) ==
  LET old == TLCGet(2) IN
  TLCSet(2, [k \in (DOMAIN old) \cup names |->
                (IF k \in DOMAIN old THEN old[k] ELSE 0) + (IF k \in appl THEN 1 ELSE 0)])

\* tag identifies the step (any value ToJson can print)
Judge(tag, S) ==
  /\ Bump({x.n : x \in S}, Appl(S))
  /\ TLCSet(3, TLCGet(3) + 1)
  /\ IF Failed(S) = {} THEN TRUE
     ELSE TLCSet(1, Append(TLCGet(1), [at |-> tag, failed |-> Failed(S)]))

WriteVerdicts ==
  JsonSerialize(IOEnv.OUT_FILE,
                [verdicts |-> TLCGet(1), counters |-> TLCGet(2), judged |-> TLCGet(3)])
=============================================================================
