------------------------------- MODULE RTText -------------------------------
(***************************************************************************)
(* The Tecan worklist record grammar as robotools must emit it (C09).      *)
(*                                                                         *)
(* A decoded record is a TLA+ record with a tag t and the fields of its    *)
(* type, produced by a lexer that knows only the Tecan format.  Render     *)
(* turns decoded fields back into the canonical text; a record is well     *)
(* formed iff Render(decoded) = raw, which also fixes the field count.     *)
(* Volumes of A/D records are integers in hundredths of a microlitre.      *)
(***************************************************************************)
EXTENDS RTGeom

MaxRecordVolumeCents == 715827800
MaxTextLen == 32

Vol2(cents) == ToString(cents \div 100) \o "." \o Pad2(cents % 100)

\* tip field: -1 encodes the empty field of Tip.Any
TipStr(tip) == IF tip = -1 THEN "" ELSE ToString(tip)

RECURSIVE JoinInts(_, _)
JoinInts(s, i) == IF i > Len(s) THEN "" ELSE ";" \o ToString(s[i]) \o JoinInts(s, i + 1)

RenderAD(r) ==
  r.t \o ";" \o r.rack \o ";" \o r.rackid \o ";" \o r.racktype \o ";" \o ToString(r.pos) \o ";"
      \o r.tube \o ";" \o Vol2(r.cents) \o ";" \o r.lc \o ";" \o r.tiptype \o ";" \o TipStr(r.tip)
      \o ";" \o r.frt

RenderR(r) ==
  "R;" \o r.srack \o ";" \o r.sid \o ";" \o r.stype \o ";" \o ToString(r.s1) \o ";" \o ToString(r.s2) \o ";"
       \o r.drack \o ";" \o r.did \o ";" \o r.dtype \o ";" \o ToString(r.d1) \o ";" \o ToString(r.d2) \o ";"
       \o r.volraw \o ";" \o r.lc \o ";" \o ToString(r.reuse) \o ";" \o ToString(r.md) \o ";"
       \o ToString(r.dir) \o JoinInts(r.excl, 1)

RenderW(r) == IF r.scheme = 0 THEN "W;" ELSE "W" \o ToString(r.scheme) \o ";"

Render(r) ==
  CASE r.t \in {"A", "D"} -> RenderAD(r)
    [] r.t = "R"  -> RenderR(r)
    [] r.t = "W"  -> RenderW(r)
    [] r.t = "WD" -> "WD;"
    [] r.t = "F"  -> "F;"
    [] r.t = "B"  -> "B;"
    [] r.t = "S"  -> "S;" \o ToString(r.idx)
    [] r.t = "C"  -> "C;" \o r.text
    [] OTHER -> "?"

\* number of ';' separated fields of each record type (the record type is the first field)
FieldCount(r) ==
  CASE r.t \in {"A", "D"} -> 11
    [] r.t = "R"  -> 16 + Len(r.excl)
    [] r.t \in {"W", "WD", "F", "B", "S", "C"} -> 2
    [] OTHER -> 0

\* count of a one character string in a string
RECURSIVE CountChar(_, _, _)
CountChar(s, ch, i) == IF i > Len(s) THEN 0
                       ELSE (IF SubSeq(s, i, i) = ch THEN 1 ELSE 0) + CountChar(s, ch, i + 1)
HasChar(s, ch) == \E i \in 1..Len(s) : SubSeq(s, i, i) = ch

WellFormed(r) ==
  /\ r.t \in {"A", "D", "R", "W", "WD", "F", "B", "S", "C"}
  /\ Render(r) = r.raw
  /\ CountChar(r.raw, ";", 1) = FieldCount(r) - 1
  /\ r.t \in {"A", "D"} => /\ r.cents >= 0 /\ r.cents <= MaxRecordVolumeCents
                           /\ r.pos >= 0
                           /\ r.tip = -1 \/ (r.tip >= 1 /\ r.tip <= 255)
                           /\ Len(r.rack) <= MaxTextLen /\ Len(r.rackid) <= MaxTextLen
                           /\ Len(r.racktype) <= MaxTextLen

(***************************************************************************)
(* Text arguments are logged as [s |-> the string, len, sep |-> contains   *)
(* ';', isstr |-> was a str].  Validity of a text argument of the A/D/R    *)
(* records (C09): a string without separator; labels, ids and types are    *)
(* limited to 32 characters.                                               *)
(***************************************************************************)
TextOK(a, limited) == a.isstr /\ ~a.sep /\ (limited => a.len <= MaxTextLen)

\* comment lines: the harness logs the lines of the comment (split at line feeds,
\* stripped) -- the non-empty ones must appear as C records in order
CommentRecords(lines) == SelectSeq(lines, LAMBDA x : x # "")
=============================================================================
