------------------------------- MODULE RTNum -------------------------------
(***************************************************************************)
(* Arithmetic helpers shared by the robotools specification family.        *)
(*                                                                         *)
(* Volumes are integers (multiples of the trace's unit).  Composition      *)
(* fractions are exact rationals <<num, den>> with den > 0 in lowest       *)
(* terms.  TLC integers are 32 bit and an overflow is a detected error;    *)
(* the operators below keep intermediate values small (lcm based sums).    *)
(***************************************************************************)
EXTENDS Integers, Sequences, FiniteSets, TLC

Max(a, b) == IF a >= b THEN a ELSE b
Min(a, b) == IF a <= b THEN a ELSE b
Abs(a)    == IF a >= 0 THEN a ELSE -a

RECURSIVE GCD(_, _)
GCD(a, b) == IF b = 0 THEN Abs(a) ELSE GCD(b, a % b)

LCM(a, b) == IF a = 0 \/ b = 0 THEN 0 ELSE (Abs(a) \div GCD(a, b)) * Abs(b)

\* ceil(a / b) for a >= 0, b > 0
CeilDiv(a, b) == (a + b - 1) \div b

RECURSIVE Pow2(_)
Pow2(n) == IF n = 0 THEN 1 ELSE 2 * Pow2(n - 1)

\* bit k (0-based) of the natural number n
Bit(n, k) == (n \div Pow2(k)) % 2

(***************************************************************************)
(* Rationals                                                               *)
(***************************************************************************)
RZero == <<0, 1>>
ROne  == <<1, 1>>

RNorm(n, d) ==
  IF n = 0 THEN RZero
  ELSE LET g == GCD(n, d) IN
       IF d > 0 THEN <<n \div g, d \div g>> ELSE <<(-n) \div g, (-d) \div g>>

IsRat(q) == /\ q \in Seq(Int) /\ Len(q) = 2 /\ q[2] > 0
IsNormalRat(q) == IsRat(q) /\ RNorm(q[1], q[2]) = q

RAdd(p, q) ==
  LET l == LCM(p[2], q[2]) IN RNorm(p[1] * (l \div p[2]) + q[1] * (l \div q[2]), l)

\* rational times integer
RMulI(p, k) == LET g == GCD(k, p[2]) IN
               IF k = 0 THEN RZero ELSE RNorm(p[1] * (k \div g), p[2] \div g)

\* rational divided by positive integer
RDivI(p, k) == LET g == GCD(p[1], k) IN
               IF p[1] = 0 THEN RZero ELSE RNorm(p[1] \div g, p[2] * (k \div g))

RMul(p, q) == LET g1 == GCD(p[1], q[2])  g2 == GCD(q[1], p[2]) IN
              IF p[1] = 0 \/ q[1] = 0 THEN RZero
              ELSE RNorm((p[1] \div g1) * (q[1] \div g2), (p[2] \div g2) * (q[2] \div g1))

RLeq(p, q) == p[1] * q[2] <= q[1] * p[2]
RInUnit(p) == p[1] >= 0 /\ p[1] <= p[2]

\* (f * v + g * a) / (v + a): ideal volumetric mixing of v units with
\* fraction f and a units with fraction g (v + a > 0).
RMix(f, v, g, a) ==
  LET l   == LCM(f[2], g[2])
      num == f[1] * (l \div f[2]) * v + g[1] * (l \div g[2]) * a
  IN  RDivI(RNorm(num, l), v + a)

RECURSIVE RSumSeq(_, _)
RSumSeq(s, i) == IF i > Len(s) THEN RZero ELSE RAdd(s[i], RSumSeq(s, i + 1))
RSum(s) == RSumSeq(s, 1)

(***************************************************************************)
(* Sequences                                                               *)
(***************************************************************************)
RECURSIVE SumSeqFrom(_, _)
SumSeqFrom(s, i) == IF i > Len(s) THEN 0 ELSE s[i] + SumSeqFrom(s, i + 1)
SumSeq(s) == SumSeqFrom(s, 1)

Range(s) == {s[i] : i \in 1..Len(s)}

Count(s, x) == Cardinality({i \in 1..Len(s) : s[i] = x})

\* multiset equality of two sequences
SameBag(s, t) == /\ Len(s) = Len(t)
                 /\ \A i \in 1..Len(s) : Count(s, s[i]) = Count(t, s[i])

RECURSIVE FlattenSeqs(_, _)
FlattenSeqs(ss, i) == IF i > Len(ss) THEN <<>> ELSE ss[i] \o FlattenSeqs(ss, i + 1)
Concat(ss) == FlattenSeqs(ss, 1)

Replicate(x, n) == [i \in 1..n |-> x]

\* positions 1..Len(keys) ordered by ascending key, ties by ascending position
\* (a stable sort); keys are compared with Lt(a, b)
StableOrder(keys, Lt(_, _)) ==
  LET n == Len(keys)
      Before(j, i) == Lt(keys[j], keys[i]) \/ (~Lt(keys[i], keys[j]) /\ j < i)
      rank(i) == Cardinality({j \in 1..n : Before(j, i)}) + 1
  IN  [p \in 1..n |-> CHOOSE i \in 1..n : rank(i) = p]
=============================================================================
