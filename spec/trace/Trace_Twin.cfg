INIT Init
NEXT Next
POSTCONDITION Post
CHECK_DEADLOCK FALSE
