----------------------------- MODULE Trace_Calls -----------------------------
(***************************************************************************)
(* Trace specification for the call/return helpers of robotools.           *)
(*                                                                         *)
(* The trace (environment variable TRACE_FILE, JSON) is a list of calls    *)
(* observed on the real implementation.  Every step consumes one call and  *)
(* judges it with the operators of the specification family; see RTJudge   *)
(* for how verdicts are collected.                                         *)
(***************************************************************************)
EXTENDS RTTransform, RTJudge

Data  == JsonDeserialize(IOEnv.TRACE_FILE)
Calls == Data.calls

VARIABLE i

(***************************************************************************)
(* C08: one geometry per call.  evo/fluent/idx/pos are listed for the      *)
(* identifier wells in row-major order (r outer, c inner); -1 = raised.    *)
(***************************************************************************)
GeomOf(c) == [rows |-> c.rows, cols |-> c.cols, vrows |-> c.vrows]
RowMajorWell(g, k) == <<(k - 1) \div g.cols, (k - 1) % g.cols>>

JudgeGeom(c) ==
  LET g == GeomOf(c)
      n == NIds(g)
      W(k) == RowMajorWell(g, k)
  IN {
    Cl("C08.evo", TRUE, Len(c.evo) = n /\ \A k \in 1..n : c.evo[k] = EvoPos(g, W(k))),
    Cl("C08.fluent", TRUE, Len(c.fluent) = n /\ \A k \in 1..n : c.fluent[k] = FluentPos(g, W(k))),
    Cl("C08.indices", TRUE,
       /\ c.nidx = n /\ Len(c.idx) = n
       /\ \A k \in 1..n : c.idx[k] = RealRC(g, W(k))),
    Cl("C08.positions", TRUE,
       /\ c.npos = n /\ Len(c.pos) = n
       /\ \A k \in 1..n : c.pos[k] = EvoPos(g, W(k))),
    Cl("C08.wells", TRUE, c.wells = IdArray(g)),
    Cl("C08.shape", TRUE, c.shape = <<IdRows(g), g.cols>> /\ c.nrows = IdRows(g) /\ c.ncols = g.cols),
    Cl("C08.volshape", TRUE, c.volshape = <<g.rows, g.cols>>),
    \* the stand-alone helpers agree with the labware attributes (plates only)
    Cl("C08.helpers", g.vrows = 0,
       /\ c.mwa = IdArray(g)
       /\ c.nmwi = n
       /\ \A k \in 1..n : c.mwi[k] = W(k)),
    \* bijection: distinct identifiers get distinct EVO numbers covering 1..n;
    \* Fluent numbers equal the real well number
    Cl("C08.bijection", TRUE,
       /\ {c.evo[k] : k \in 1..Len(c.evo)} = 1..n
       /\ \A k \in 1..Len(c.fluent) : c.fluent[k] = RealIdx(g, W(k)))
  }

(***************************************************************************)
(* C19: get_trough_wells                                                   *)
(***************************************************************************)
JudgeTW(c) ==
  LET ws == FlattenF(c.wells)
      valid == c.ncls = "int" /\ c.n >= 0 /\ Len(ws) > 0
  IN {
    Cl("C19.result", valid, c.out = "ok" /\ c.res = TroughWells(c.n, ws)),
    Cl("C19.length", valid /\ c.out = "ok", Len(c.res) = c.n),
    Cl("C19.reject", ~valid, c.out # "ok")
  }

(***************************************************************************)
JudgeCall(c) ==
  CASE c.fn = "geom" -> JudgeGeom(c)
    [] c.fn = "tw"   -> JudgeTW(c)
    [] OTHER -> {Cl("machinery.unknown_fn", TRUE, FALSE)}

Init == i = 1 /\ InitRegisters
Next == /\ i <= Len(Calls)
        /\ Judge([i |-> i, fn |-> Calls[i].fn, id |-> Calls[i].id], JudgeCall(Calls[i]))
        /\ i' = i + 1
Post == WriteVerdicts
=============================================================================
