----------------------------- MODULE Trace_Calls -----------------------------
(***************************************************************************)
(* Trace specification for the call/return helpers of robotools.           *)
(*                                                                         *)
(* The trace (environment variable TRACE_FILE, JSON) is a list of calls    *)
(* observed on the real implementation.  Every step consumes one call and  *)
(* judges it with the operators of the specification family; see RTJudge   *)
(* for how verdicts are collected.                                         *)
(***************************************************************************)
EXTENDS RTTransform, RTPlan, RTTips, RTSelect, RTLabware, RTDilution, RTJudge

Data  == JsonDeserialize(IOEnv.TRACE_FILE)
Calls == Data.calls

VARIABLE ci

(***************************************************************************)
(* C08: one geometry per call.  evo/fluent/idx/pos are listed for the      *)
(* identifier wells in row-major order (r outer, c inner); -1 = raised.    *)
(***************************************************************************)
GeomOf(c) == [rows |-> c.rows, cols |-> c.cols, vrows |-> c.vrows]
RowMajorWell(g, k) == <<(k - 1) \div g.cols, (k - 1) % g.cols>>

JudgeGeom(c) ==
  LET g == GeomOf(c)
      n == NIds(g)
      W(k) == RowMajorWell(g, k)
  IN {
    Cl("C08.evo", TRUE, Len(c.evo) = n /\ \A k \in 1..n : c.evo[k] = EvoPos(g, W(k))),
    Cl("C08.fluent", TRUE, Len(c.fluent) = n /\ \A k \in 1..n : c.fluent[k] = FluentPos(g, W(k))),
    Cl("C08.indices", TRUE,
       /\ c.nidx = n /\ Len(c.idx) = n
       /\ \A k \in 1..n : c.idx[k] = RealRC(g, W(k))),
    Cl("C08.positions", TRUE,
       /\ c.npos = n /\ Len(c.pos) = n
       /\ \A k \in 1..n : c.pos[k] = EvoPos(g, W(k))),
    Cl("C08.wells", TRUE, c.wells = IdArray(g)),
    Cl("C08.shape", TRUE, c.shape = <<IdRows(g), g.cols>> /\ c.nrows = IdRows(g) /\ c.ncols = g.cols),
    Cl("C08.volshape", TRUE, c.volshape = <<g.rows, g.cols>>),
    \* the stand-alone helpers agree with the labware attributes (plates only)
    Cl("C08.helpers", g.vrows = 0,
       /\ c.mwa = IdArray(g)
       /\ c.nmwi = n
       /\ \A k \in 1..n : c.mwi[k] = W(k)),
    \* the numbering is defined on the wells of the labware only: an identifier whose column number is 0 or beyond the
    \* last column has no position on either device (row letters are left out: the Fluent resolver is lenient about them)
    Cl("C08.outofrange", TRUE, \A k \in 1..Len(c.badcols) : c.badcols[k].evo = -1 /\ c.badcols[k].fluent = -1),
    \* bijection: distinct identifiers get distinct EVO numbers covering 1..n;
    \* Fluent numbers equal the real well number
    Cl("C08.bijection", TRUE,
       /\ {c.evo[k] : k \in 1..Len(c.evo)} = 1..n
       /\ \A k \in 1..Len(c.fluent) : c.fluent[k] = RealIdx(g, W(k)))
  }

(***************************************************************************)
(* C19: get_trough_wells                                                   *)
(***************************************************************************)
JudgeTW(c) ==
  LET ws == FlattenF(c.wells)
      valid == c.ncls = "int" /\ c.n >= 0 /\ Len(ws) > 0
  IN {
    Cl("C19.result", valid, c.out = "ok" /\ c.res = TroughWells(c.n, ws)),
    Cl("C19.length", valid /\ c.out = "ok", Len(c.res) = c.n),
    Cl("C19.list", c.out = "ok", c.islist),   \* "returns a list": the caller may compare it with ==, add to it, serialise it
    \* a whole-valued float (3.0): refusing it and treating it as 3 are both in keeping with "non-integer n is rejected"
    Cl("C19.reject", ~valid /\ c.ncls \notin {"intfloat", "np8", "npu8"}, c.out # "ok"),
    \* (likewise numpy integers: today refused as "not an int"; if taken, taken for their value)
    Cl("C19.foreign", c.ncls \in {"intfloat", "np8", "npu8"} /\ c.n >= 0 /\ Len(ws) > 0 /\ c.out = "ok", c.res = TroughWells(c.n, ws))
  }

(***************************************************************************)
(* C06: partition_volume                                                   *)
(***************************************************************************)
JudgeSplit(c) == {
    Cl("C06.helper", c.v >= 0 /\ c.M > 0, c.out = "ok" /\ IsValidSplit(c.v, c.M, c.steps)),
    Cl("C06.helperzero", c.v = 0 /\ c.M > 0, c.out = "ok" /\ c.steps = <<>>)
  }

(***************************************************************************)
(* C10: tip masks of aspirate_well / dispense_well                         *)
(***************************************************************************)
JudgeMask(c) == {
    Cl("C10.mask", TipArgValid(c.tip), c.out = "ok" /\ c.nrec = 1 /\ c.rt = c.via /\ c.mask = TipArgMask(c.tip)),
    Cl("C10.reject", ~TipArgValid(c.tip), c.out # "ok" /\ c.nrec = 0)
  }

(***************************************************************************)
(* C12: EVO selection string                                               *)
(***************************************************************************)
JudgeSel(c) ==
  LET sel == Range(c.sel) IN {
    Cl("C12.faithful", TRUE, c.out = "ok" /\ Faithful(c.rows, c.cols, sel, c.codes)),
    Cl("C12.encode", TRUE, c.out = "ok" /\ c.codes = Encode(c.rows, c.cols, sel)),
    Cl("C12.array", TRUE, c.out = "ok" /\ c.arrok)
  }

(***************************************************************************)
(* C18: partition_by_column / optimize_partition_by                        *)
(***************************************************************************)
JudgePart(c) ==
  LET valid == c.mode \in {"source", "destination"} IN {
    Cl("C18.partition", valid, c.out = "ok" /\ IsPartition(c.x, c.mode, c.groups)),
    Cl("C18.badmode", ~valid /\ c.x # <<>>, c.out # "ok")
  }

JudgeOptPart(c) == {
    Cl("C18.auto", ValidMode(c.mode), c.out = "ok" /\ c.res = AutoSide(c.st, c.dt, c.mode)),
    Cl("C18.modename", ~ValidMode(c.mode), c.out # "ok")
  }

(***************************************************************************)
(* C15: well transforms.  Arguments and results are logged in their shape; *)
(* MapShape applies a well function elementwise, preserving the shape.     *)
(***************************************************************************)
MapShape(a, F(_)) ==
  IF a.k = "s" THEN [k |-> "s", x |-> F(a.x)]
  ELSE IF a.k = "l" THEN [k |-> "l", x |-> [i \in 1..Len(a.x) |-> F(a.x[i])]]
  ELSE [k |-> "m", x |-> [r \in 1..Len(a.x) |-> [cc \in 1..Len(a.x[r]) |-> F(a.x[r][cc])]]]
AllWells(a) == Range(FlattenF(a))

JudgeShift(c) ==
  LET fits == ShiftFits(c.A, c.B, c.anchor)
      inA == \A w \in AllWells(c.wells) : InShape(c.A, w)
  IN {
    Cl("C15.shiftfits", TRUE, (c.ctor = "ok") <=> fits),
    Cl("C15.shift", fits /\ inA /\ c.ctor = "ok",
       c.out = "ok" /\ c.shifted = MapShape(c.wells, LAMBDA w : Shift(c.anchor, w))),
    Cl("C15.unshift", fits /\ inA /\ c.ctor = "ok" /\ c.out = "ok", c.out2 = "ok" /\ c.unshifted = c.wells),
    \* the transforms are functions on well IDs: neither the argument nor an earlier result changes through a later call
    Cl("C15.shiftstable", fits /\ inA /\ c.ctor = "ok" /\ c.out = "ok", c.shifted2 = c.shifted /\ c.argafter = c.wells),
    Cl("C15.shiftinside", fits /\ inA /\ c.ctor = "ok" /\ c.out = "ok", \A w \in AllWells(c.shifted) : InShape(c.B, w))
  }

JudgeRot(c) ==
  LET sh == c.shape IN {
    Cl("C15.rotcw", TRUE, c.out = "ok" /\ c.cw = MapShape(c.wells, LAMBDA w : RotCW(sh, w))),
    Cl("C15.rotccw", TRUE, c.out = "ok" /\ c.ccw = MapShape(c.wells, LAMBDA w : RotCCW(sh, w))),
    Cl("C15.rotinverse", c.out = "ok", c.cwccw = c.wells /\ c.ccwcw = c.wells),
    Cl("C15.rotfour", c.out = "ok", c.cw4 = c.wells),
    Cl("C15.rotstable", c.out = "ok", c.cw2 = c.cw /\ c.argafter = c.wells),
    Cl("C15.rotinside", c.out = "ok", \A w \in AllWells(c.cw) \cup AllWells(c.ccw) : InShape(Swap(sh), w))
  }

JudgeRand(c) ==
  LET sh == c.shape  tab == c.tab1 IN {
    Cl("C15.randperm", TRUE, c.out = "ok" /\ TableIsPermutation(sh, tab)),
    Cl("C15.randmode", c.out = "ok", TableKeepsMode(c.mode, tab)),
    Cl("C15.randseed", c.out = "ok", c.tab1 = c.tab2),
    Cl("C15.randomize", c.out = "ok" /\ TableIsPermutation(sh, tab),
       c.rnd = MapShape(c.wells, LAMBDA w : Lookup(tab, w))),
    Cl("C15.derandomize", c.out = "ok", c.back = c.wells),
    Cl("C15.randstable", c.out = "ok", c.rnd2 = c.rnd /\ c.argafter = c.wells)
  }

(***************************************************************************)
(* C20: constructors                                                       *)
(***************************************************************************)
JudgeCtor(c) ==
  LET valid == ValidSpec(c)
      g == CtorGeom(c)
      o == c.obs
      \* the default naming rule is stated for multi-row plates, troughs and single-well labware
      ruled == (g.vrows > 0 /\ c.kind = "trough") \/ (g.vrows = 0 /\ (g.rows > 1 \/ (g.rows = 1 /\ g.cols = 1)))
      allnamed == \A k \in 1..NReal(g) : InitFlat(c, g)[k] > 0 => GivenNames(c, g)[k].h
  IN {
    Cl("C20.consistent", c.out = "ok", Consistent(c, o)),
    Cl("C20.accept", valid, c.out = "ok"),
    Cl("C20.layout", valid /\ c.out = "ok", o.vol = InitFlat(c, g) /\ o.minv = c.minv.v /\ o.maxv = c.maxv.v),
    Cl("C20.naming", valid /\ c.out = "ok" /\ (ruled \/ allnamed),
       [k \in 1..NReal(g) |-> Range(o.comp[k])] = InitComp(c.name, g, InitFlat(c, g), GivenNames(c, g))),
    Cl("C20.reject", ~valid, c.out = "value")
  }

(***************************************************************************)
(* C14: DilutionPlan objects                                               *)
(***************************************************************************)
JudgeDilPlan(c) ==
  LET ok == c.out = "ok"
      shaped == ok /\ c.Robs = c.R /\ c.Cobs = c.C /\ c.vmaxobs = c.vmax /\ PlanOrdered(c)
  IN {
    Cl("C14.outcome", TRUE, c.out \in {"ok", "value"}),
    Cl("C14.complete", ok, shaped),
    \* the per-column capacities are the caller's: the plan reports them as given (c.vmaxobs = c.vmax above) and leaves the
    \* caller's table alone
    Cl("C14.vmaxkept", ok, c.vmaxkept),
    Cl("C14.range", ok, c.rangeok),   \* xmin / xmax are the smallest / largest reported concentration (harness: the same floats)
    Cl("C14.whole", shaped, PlanWhole(c)),
    Cl("C14.bounds", shaped /\ PlanWhole(c), PlanBounds(c)),
    Cl("C14.budget", shaped /\ PlanWhole(c), PlanBudget(c)),
    \* exact comparison only where every implied denominator stays below 10^6 (vmax <= 50, at most 2 serial steps)
    Cl("C14.conc", shaped /\ PlanWhole(c) /\ c.small /\ c.xsup /\ (\A i \in 1..Len(c.instr) : c.instr[i].dsteps <= 2),
       PlanConcentrations(c)),
    Cl("C14.totals", shaped /\ PlanWhole(c), PlanTotals(c))
  }

(***************************************************************************)
(* C05: combine_composition = ideal volumetric mixing; unknown stays unknown*)
(***************************************************************************)
JudgeCombine(c) == {
    Cl("C05.combine", c.aknown /\ c.bknown /\ c.va + c.vb > 0 /\ c.vb > 0,
       c.out = "ok" /\ ~c.isnone /\ Range(c.res) = MixComp(Range(c.a), c.va, Range(c.b), c.vb)),
    Cl("C05.combineunknown", ~c.aknown \/ ~c.bknown, c.out = "ok" /\ c.isnone),
    Cl("C05.combinesane", c.out = "ok" /\ ~c.isnone /\ c.va + c.vb > 0, CompInUnit(Range(c.res)) /\ CompFunctional(Range(c.res)))
  }

(***************************************************************************)
(* C02 on the raw floats: decimal limits and volumes that land on a limit. *)
(* Whether such a step is accepted is float noise and not judged; a well   *)
(* that was raised must not be above max_volume, one that was lowered must *)
(* not be below min_volume (the harness compares the stored floats).       *)
(***************************************************************************)
\* C06 on raw floats a hair beside a multiple of max_volume (the harness evaluates the literal statements in exact rational
\* arithmetic on the floats it passed and received, see calls.py: rawsplit)
JudgeRawSplit(c) == {
    Cl("C06.rawcount", TRUE, c.out = "ok" /\ c.count),
    Cl("C06.rawbounded", c.out = "ok", c.bounded),
    Cl("C06.rawsum", c.out = "ok", c.sum)
  }

JudgeRawLimit(c) == {
    Cl("C02.rawsetup", TRUE, c.out = "ok" /\ Len(c.steps) = c.nsteps),
    Cl("C02.rawbounds", c.out = "ok", \A i \in 1..Len(c.steps) : ~c.steps[i].up /\ ~c.steps[i].down)
  }

(***************************************************************************)
(* C08 across object life times: labware come and go on one worklist; the  *)
(* position written for a well is that of the labware in hand.             *)
(***************************************************************************)
JudgePosLife(c) == {
    Cl("C08.lifetimes", TRUE,
       /\ c.out = "ok" /\ Len(c.seen) = c.n
       /\ \A i \in 1..Len(c.seen) :
             LET e == c.seen[i]  g == [rows |-> e.rows, cols |-> e.cols, vrows |-> e.vrows] IN
             e.pos = Pos(c.dev, g, <<e.well[1], e.well[2]>>))
  }

(***************************************************************************)
JudgeCall(c) ==
  CASE c.fn = "geom" -> JudgeGeom(c)
    [] c.fn = "tw"   -> JudgeTW(c)
    [] c.fn = "split" -> JudgeSplit(c)
    [] c.fn = "mask" -> JudgeMask(c)
    [] c.fn = "sel"  -> JudgeSel(c)
    [] c.fn = "part" -> JudgePart(c)
    [] c.fn = "optpart" -> JudgeOptPart(c)
    [] c.fn = "shift" -> JudgeShift(c)
    [] c.fn = "rot" -> JudgeRot(c)
    [] c.fn = "rand" -> JudgeRand(c)
    [] c.fn = "ctor" -> JudgeCtor(c)
    [] c.fn = "dilplan" -> JudgeDilPlan(c)
    [] c.fn = "combine" -> JudgeCombine(c)
    [] c.fn = "rawlimit" -> JudgeRawLimit(c)
    [] c.fn = "rawsplit" -> JudgeRawSplit(c)
    [] c.fn = "poslife" -> JudgePosLife(c)
    [] OTHER -> {Cl("machinery.unknown_fn", TRUE, FALSE)}

Init == ci = 1 /\ InitRegisters
Next == /\ ci <= Len(Calls)
        /\ Judge([i |-> ci, fn |-> Calls[ci].fn, id |-> Calls[ci].id], JudgeCall(Calls[ci]))
        /\ ci' = ci + 1
Post == WriteVerdicts
=============================================================================
