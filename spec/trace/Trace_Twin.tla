------------------------------ MODULE Trace_Twin ------------------------------
(***************************************************************************)
(* Trace specification for stateful programs: labware twins, worklist      *)
(* records, the robot replay, histories and the saved file.                *)
(*                                                                         *)
(* TRACE_FILE holds a batch of traces recorded from the real robotools.    *)
(* A trace has a header (device, unit, worklist parameters, labware with   *)
(* the observed initial state) and one event per public call:              *)
(*   [op, a (arguments as passed), out (outcome class), post (projected    *)
(*    state after the call), recs (decoded records appended by the call)]  *)
(* A step consumes one event, binds the state variables to the logged      *)
(* post state and judges the step with the operators of RTWorklist,        *)
(* RTLabware and RTRobot.  Judging never blocks (see RTJudge).             *)
(***************************************************************************)
EXTENDS RTWorklist, RTFile, RTDilution, RTJudge

Data   == JsonDeserialize(IOEnv.TRACE_FILE)
Traces == Data.traces

VARIABLES tid,    \* index of the current trace
          l,      \* index of the next event of that trace
          vol,    \* volumes per labware (logged)
          comp,   \* compositions per labware, per real well a set of <<name, num, den>>
          hn,     \* history length per labware
          wl,     \* decoded records of the worklist so far
          live,   \* no operation of this trace has failed so far
          cok,    \* the composition chain is still within the supported arithmetic range
          robv,   \* the robot's own volumes: initial contents + every record executed so far (never re-synchronised
                  \* with the twin while only tracked worklist operations happen)
          cfg     \* the worklist's public configuration [maxv, maxc, autosplit]: part of the state, callers may assign
                  \* max_volume / auto_split between operations and every operation obeys the values current at its call
vars == <<tid, l, vol, comp, hn, wl, live, cok, robv, cfg>>

HdrT0(tr) == [dev |-> tr.dev, unitc |-> tr.unitc, millis |-> tr.millis, k |-> tr.k, wlmax |-> tr.wl.maxv, wlmaxc |-> tr.wl.maxc,
             autosplit |-> tr.wl.autosplit, diti |-> tr.wl.diti, lw |-> tr.lw]
\* lim: the public volume limits <<min_volume, max_volume>> of every labware (they are plain attributes as well)
CfgOf(tr) == [maxv |-> tr.wl.maxv, maxc |-> tr.wl.maxc, autosplit |-> tr.wl.autosplit, diti |-> tr.wl.diti,
              lim |-> [k \in 1..Len(tr.lw) |-> <<tr.lw[k].minv, tr.lw[k].maxv>>]]
HdrT(tr) == [HdrT0(tr) EXCEPT !.wlmax = cfg.maxv, !.wlmaxc = cfg.maxc, !.autosplit = cfg.autosplit, !.diti = cfg.diti,
                              !.lw = [k \in 1..Len(tr.lw) |-> [tr.lw[k] EXCEPT !.minv = cfg.lim[k][1], !.maxv = cfg.lim[k][2]]]]

EmptyComp(tr) == [k \in 1..Len(tr.lw) |-> [i \in 1..Len(tr.lw[k].init.vol) |-> {}]]
\* compositions handed to the robot / reference: only while they are tracked exactly
TrackedComp(tr) == IF tr.flags.comp /\ cok THEN comp ELSE EmptyComp(tr)

CompOf(c) == [k \in 1..Len(c) |-> [i \in 1..Len(c[k]) |-> Range(c[k][i])]]
NLw(tr) == Len(tr.lw)

(***************************************************************************)
(* Constructor observation (C05 naming, C20 initial state)                 *)
(***************************************************************************)
(***************************************************************************)
(* Observation must not matter: the same program run on fresh objects      *)
(* without a single look at the labware until the last operation returned  *)
(* ends in the state that the observed run ends in.                        *)
(***************************************************************************)
JudgeUnobserved(tr) ==
  LET b == tr.blind IN {
    Cl("C04.unobserved", b.has, b.unseen.vol = b.seen.vol),
    Cl("C05.unobserved", b.has /\ tr.flags.comp, b.unseen.comp = b.seen.comp),
    Cl("C11.unobserved", b.has, b.unseen.hn = b.seen.hn /\ b.unseen.last = b.seen.last),
    Cl("C01.unobserved", b.has, b.unseen.wl = b.seen.wl)
  }

JudgeInit(tr) ==
  \* the labware of a program are valid specifications: a constructor that refuses one leaves nothing to run
  {Cl("C20.accept", TRUE, ~tr.ctorfail)} \cup
  UNION {
    LET L == tr.lw[k]  g == L.g IN
    {
      Cl("C20.initvol", TRUE, L.init.vol = L.spec.init),
      Cl("C20.inithist", TRUE, L.init.hn = 1 /\ L.init.last.h /\ L.init.last.l = "initial" /\ L.init.last.s = L.spec.init),
      Cl("C05.initcomp", L.spec.named /\ tr.flags.comp,
         [i \in 1..NReal(g) |-> Range(L.init.comp[i])] = InitComp(L.name, g, L.spec.init, L.spec.names)),
      Cl("C05.initnormal", tr.flags.comp,
         \A i \in 1..NReal(g) : (L.spec.init[i] > 0) => CompNormalised(Range(L.init.comp[i])))
    } : k \in 1..NLw(tr)}

(***************************************************************************)
(* Clauses common to every event                                           *)
(***************************************************************************)
KwValues(kw) == [lc |-> kw.lc.s, tip |-> TipArgMask(kw.tip), rackid |-> kw.rackid.s, racktype |-> kw.racktype.s,
                 tube |-> kw.tube.s, frt |-> kw.frt.s]
KwValid(kw) == /\ TextOK(kw.lc, FALSE) /\ TipArgValid(kw.tip) /\ TextOK(kw.rackid, TRUE)
               /\ TextOK(kw.racktype, TRUE) /\ TextOK(kw.tube, FALSE) /\ TextOK(kw.frt, TRUE)

Participants(ev) ==
  CASE ev.op \in {"add", "remove", "aspirate", "dispense", "evo_aspirate", "evo_dispense", "log", "condense"} -> {ev.a.lw}
    [] ev.op \in {"transfer", "distribute"} -> {ev.a.src, ev.a.dst}
    [] ev.op \in {"external", "rawemit"} -> 1..100   \* acted outside this trace's tracking (another worklist of the same
                                                     \* test; EVO script commands issued by a repository test)
    [] OTHER -> {}

\* comment texts are compared modulo surrounding white space and empty lines (the properties do not pin either)
CommentTexts(recs) == LET cm == SelectSeq(Comments(recs), LAMBDA r : r.stext # "") IN [i \in 1..Len(cm) |-> cm[i].stext]

NamesOf(c, k) == UNION {CNames(c[k][i]) : i \in 1..Len(c[k])}

\* For the robot replay the source range of an R record is replaced by the range the property
\* demands (clause C01.rsrc judges the emitted one), so that a wrong range is reported once.
ReplayRecs(T, ev) ==
  IF ev.op # "distribute" THEN ev.recs
  ELSE LET g == T.lw[ev.a.src].g IN
       IF ~IsTrough(g) \/ ev.a.col < 0 \/ ev.a.col >= g.cols \/ T.dev = "base" THEN ev.recs
       ELSE LET sps == ColumnPositions(T.dev, g, ev.a.col) IN
            [i \in 1..Len(ev.recs) |->
               IF ev.recs[i].t = "R" THEN [ev.recs[i] EXCEPT !.s1 = MinOf(sps), !.s2 = MaxOf(sps)] ELSE ev.recs[i]]

TrackedOps == {"aspirate", "dispense", "transfer", "distribute", "evo_aspirate", "evo_dispense"}
\* raw pipetting records appended through the low level emitters are not tracked by any labware
Untracked(ev) == \/ ev.op \in {"emit", "rawemit"} /\ \E i \in 1..Len(ev.recs) : ev.recs[i].t \in {"A", "D", "R", "BA", "BD"}
                 \/ ev.op = "listedit"   \* the caller edited the record list: what the robot would do is the caller's business now

PipRecs(recs) == SelectSeq(recs, LAMBDA r : r.t \in {"A", "D"})

Common(tr, T, ev) ==
  LET post == ev.post  pc == CompOf(post.comp)  F == tr.flags  part == Participants(ev) IN
  {
    Cl("C02.bounds", TRUE,
       \A k \in 1..NLw(tr) : \A i \in 1..Len(post.vol[k]) :
          /\ post.vol[k][i] >= 0
          /\ post.vol[k][i] > vol[k][i] => post.vol[k][i] <= T.lw[k].maxv
          /\ post.vol[k][i] < vol[k][i] => post.vol[k][i] >= T.lw[k].minv),
    Cl("C02.okbounds", ev.out = "ok",
       \A k \in 1..NLw(tr) : \A i \in 1..Len(post.vol[k]) : post.vol[k][i] <= T.lw[k].maxv \/ post.vol[k][i] = vol[k][i]),
    \* behaviours enumerated by TLC on the bounded model carry the model's own verdict for every step
    \* (up to and including the first rejected step: what a rejected multi-well call leaves in the wells in front of the
    \* offending one is not pinned by any property - the model applies them, an implementation may apply none - so the
    \* volumes are compared for accepted steps only and nothing is compared after a rejection)
    Cl("C04.model", ev.hasmodel /\ live,
       LET class(o) == IF o \in {"overflow", "underflow", "invalidop", "ok"} THEN o ELSE "rejected" IN
       class(ev.out) = class(ev.model.out) /\ (ev.out = "ok" => post.vol = ev.model.vol)),
    \* the state can be asked for: volumes, compositions and history answer (a query that raises is logged as such)
    Cl("C04.observable", TRUE, post.obs.vol),
    Cl("C05.observable", F.comp, post.obs.comp),
    Cl("C11.observable", TRUE, post.obs.hist),
    Cl("C04.frame", TRUE,
       \A k \in (1..NLw(tr)) \ part : post.vol[k] = vol[k] /\ pc[k] = comp[k] /\ post.hn[k] = hn[k]),
    Cl("C05.sane", F.comp /\ cok /\ ev.cs,
       \A k \in 1..NLw(tr) : CompSane(post.vol[k], pc[k])),
    \* the per-well query (Labware.get_well_composition) reports what the composition tables report
    Cl("C05.wellview", F.comp /\ post.haswv, CompOf(post.wview) = pc),
    Cl("C05.normalised", F.norm /\ cok /\ ev.cs,
       \A k \in 1..NLw(tr) : CompNormalisedAll(post.vol[k], pc[k])),
    Cl("C09.wellformed", F.records /\ ev.recs # <<>>,
       \A i \in 1..Len(ev.recs) : ev.recs[i].t \in {"BA", "BD", "BW"} \/ WellFormed(ev.recs[i])),
    Cl("C01.appendonly", ev.op \notin {"enter", "clear", "listedit"}, ev.wprefix /\ ev.wlen = Len(wl) + Len(ev.recs)),
    Cl("C03.stepmax", F.records,
       \A i \in 1..Len(ev.recs) : ev.recs[i].t \in {"A", "D"} => ev.recs[i].cents <= T.wlmaxc),
    Cl("C03.replay", F.robot /\ live /\ ev.op \in TrackedOps,
       Run(T, vol, TrackedComp(tr), ReplayRecs(T, ev)).err = ""),
    \* the literal statement: replaying everything accumulated so far from the INITIAL contents stays within limits
    \* (the robot state is carried through the trace independently of what the twin claims)
    Cl("C03.replayall", F.robot /\ live /\ ev.op \in TrackedOps,
       Run(T, robv, EmptyComp(tr), ReplayRecs(T, ev)).err = ""),
    \* the history clauses are about every successful operation, whatever was rejected before it: none is scoped by `live`
    Cl("C11.prefix", ev.out = "ok" /\ ev.op # "condense",
       \A k \in 1..NLw(tr) : post.hsame[k] >= hn[k] /\ post.hn[k] >= hn[k]),
    \* earlier entries are snapshots: no later successful operation changes or drops them, whatever happened in between
    \* (this clause is not scoped by `live`: it also holds after a rejected operation)
    Cl("C11.keeps", ev.out = "ok" /\ ev.op # "condense",
       \A k \in 1..NLw(tr) : post.hsame[k] >= hn[k]),
    \* (a transfer that moves nothing files the last recorded state again - it cannot make up for what a rejected multi-well
    \* call left in the wells in front of the offending one, which no property pins: there the clause needs an unbroken run
    \* of accepted operations; add / remove / aspirate / dispense file the volumes as they are, also when they move nothing)
    Cl("C11.newest", ev.out = "ok" /\ part # {} /\ ev.op \notin {"external", "rawemit"},
       \A k \in part : (live \/ ev.op \notin {"transfer", "distribute"} \/ post.vol[k] # vol[k]) => post.last[k].s = post.vol[k])
  }

(***************************************************************************)
(* add / remove / aspirate / dispense                                      *)
(***************************************************************************)
WellsValid(g, ws) == \A i \in 1..Len(ws) : ValidWell(g, ws[i])

\* the A or D records of one aspirate/dispense call, as a bag of <<position, cents>>
\* Volume of a record in hundredths of a microlitre.  In "millis" traces one unit is a thousandth of a
\* microlitre and the record carries the volume rounded to two decimals (third decimals of 5 are not generated).
RecCents(T, v) == IF T.millis THEN (v + 5) \div 10 ELSE v * T.unitc

ExpectedAD(T, k, P) ==
  LET idx == SelectSeq([i \in 1..Len(P.ws) |-> i], LAMBDA i : P.vs[i] > 0) IN
  [j \in 1..Len(idx) |-> <<Pos(T.dev, T.lw[k].g, P.ws[idx[j]]), RecCents(T, P.vs[idx[j]])>>]

LabelOK(e, label) == e.h = label.h /\ (label.h => e.l = label.l)

JudgeLabwareOp(tr, T, ev) ==
  LET a == ev.a  k == a.lw  L == T.lw[k]  post == ev.post  pc == CompOf(post.comp)
      P == ArgsPair(a.wells, a.vols)
      isAdd == ev.op \in {"add", "dispense"}
      viaWl == ev.op \in {"aspirate", "dispense"}
      valid == P.ok /\ WellsValid(L.g, P.ws) /\ NonNeg(P.vs) /\ (a.hascomps => Len(a.comps) = Len(P.ws))
      cs == IF a.hascomps /\ tr.flags.comp /\ cok
            THEN Known([i \in 1..Len(a.comps) |-> Range(a.comps[i])]) ELSE Unknown(Len(P.ws))
      ra == AddRun(L, vol[k], TrackedComp(tr)[k], P.ws, P.vs, cs, 1)
      rr == RemoveRun(L, vol[k], P.ws, P.vs, 1)
      rout == IF isAdd THEN ra.out ELSE rr.out
      rvol == IF isAdd THEN ra.vol ELSE rr.vol
      rn   == IF isAdd THEN ra.n ELSE rr.n
      kwok == viaWl => KwValid(a.kw)
      fits == \A i \in 1..Len(P.vs) : P.vs[i] <= T.wlmax
      F == tr.flags
      tag == IF isAdd THEN "D" ELSE "A"
      pips == PipRecs(ev.recs)
  IN {
    Cl("C04.vol", valid /\ rout = "ok" /\ ev.out = "ok", post.vol[k] = rvol),
    Cl("C04.accept", valid /\ rout = "ok" /\ kwok /\ (viaWl => fits /\ T.dev # "base" /\ a.labelok), ev.out = "ok"),
    Cl("C04.reject", ~P.ok, ev.out # "ok" /\ post.vol = vol),
    \* (when the same call is also refused for another reason - a step above the worklist's max_volume, an invalid keyword
    \* argument or label - no property says which of the two reasons is reported: the class of the error is then not judged)
    Cl("C02.outcome", valid /\ rout \in {"overflow", "underflow"} /\ (viaWl => fits /\ kwok /\ a.labelok), ev.out = rout),
    Cl("C02.offender", valid /\ rout \in {"overflow", "underflow"},
       \E n \in 0..rn : post.vol[k] = (IF isAdd THEN AddPrefix(L, vol[k], P.ws, P.vs, n)
                                       ELSE RemovePrefix(L, vol[k], P.ws, P.vs, n))),
    \* negative (and NaN) volumes for add/remove are outside every quantifier: no property says what must happen, so
    \* nothing is demanded of the call itself; whatever it does, C02.bounds and C02.okbounds still apply to the result
    Cl("C05.mix", F.comp /\ cok /\ ev.cs /\ isAdd /\ valid /\ rout = "ok" /\ ev.out = "ok",
       \A i \in 1..Len(rvol) : rvol[i] > 0 => pc[k][i] = ra.comp[i]),
    \* a rejected addition leaves volumes AND compositions of one and the same prefix of the per-well updates
    Cl("C05.failmix", F.comp /\ cok /\ ev.cs /\ isAdd /\ valid /\ rout = "overflow" /\ ev.out = "overflow",
       \E n \in 0..rn :
          LET pr == AddRun(L, vol[k], TrackedComp(tr)[k], SubSeq(P.ws, 1, n), SubSeq(P.vs, 1, n), SubSeq(cs, 1, n), 1) IN
          /\ post.vol[k] = pr.vol
          /\ \A i \in 1..Len(pr.vol) : pr.vol[i] > 0 => pc[k][i] = pr.comp[i]),
    Cl("C05.removekeeps", F.comp /\ cok /\ ev.cs /\ ~isAdd,
       \A i \in 1..Len(post.vol[k]) : post.vol[k][i] > 0 => pc[k][i] = comp[k][i]),
    Cl("C11.count", ev.out = "ok", post.hn[k] = hn[k] + 1),
    Cl("C11.label", ev.out = "ok", LabelOK(post.last[k], a.label)),
    \* records of worklist aspirate / dispense
    Cl("C01.address", viaWl /\ F.records /\ ev.out = "ok" /\ valid,
       /\ \A i \in 1..Len(pips) : pips[i].t = tag /\ pips[i].rack = L.name
       /\ SameBag([i \in 1..Len(pips) |-> <<pips[i].pos, pips[i].cents>>], ExpectedAD(T, k, P))),
    \* the numbering rule on its own (C08): the positions in the records are the device's numbers of the wells that were named
    Cl("C08.emitted", viaWl /\ F.records /\ ev.out = "ok" /\ valid,
       LET exp == ExpectedAD(T, k, P) IN
       SameBag([i \in 1..Len(pips) |-> pips[i].pos], [i \in 1..Len(exp) |-> exp[i][1]])),
    \* two-decimal rounding: what the robot moves differs from the twin by at most half a hundredth per record
    Cl("C01.rounding", viaWl /\ T.millis /\ F.records /\ ev.out = "ok" /\ valid,
       \A i \in 1..Len(post.vol[k]) :
          LET mine == {j \in 1..Len(pips) : pips[j].pos >= 1 /\ pips[j].pos <= NPos(T.dev, L.g) /\ CavOfPos(T.dev, L.g, pips[j].pos) = i}
              moved == LET RECURSIVE Sm(_)
                           Sm(X) == IF X = {} THEN 0 ELSE LET j == CHOOSE x \in X : TRUE IN pips[j].cents + Sm(X \ {j})
                       IN Sm(mine)
              delta == IF isAdd THEN post.vol[k][i] - vol[k][i] ELSE vol[k][i] - post.vol[k][i]
          IN Abs(moved * 10 - delta) <= 5 * Cardinality(mine)),
    Cl("C09.kwargs", viaWl /\ F.records /\ ev.out = "ok" /\ KwValid(a.kw),
       LET kv == KwValues(a.kw) IN
       \A i \in 1..Len(pips) : /\ pips[i].lc = kv.lc /\ pips[i].tip = kv.tip /\ pips[i].rackid = kv.rackid
                               /\ pips[i].racktype = kv.racktype /\ pips[i].tube = kv.tube /\ pips[i].frt = kv.frt
                               /\ pips[i].tiptype = ""),
    \* (as for transfer: the label comment may already have been written, no pipetting record may)
    Cl("C09.kwreject", viaWl /\ ~KwValid(a.kw) /\ (\E i \in 1..Len(P.vs) : P.vs[i] > 0) /\ T.dev # "base",
       ev.out # "ok" /\ PipRecs(ev.recs) = <<>>),
    \* C10 through aspirate / dispense: a tip collection is ONE selection, every record of the call carries its OR;
    \* an invalid tip argument is rejected
    Cl("C10.recmask", viaWl /\ F.records /\ ev.out = "ok" /\ TipArgValid(a.kw.tip),
       \A i \in 1..Len(pips) : pips[i].tip = TipArgMask(a.kw.tip)),
    Cl("C10.recreject", viaWl /\ ~TipArgValid(a.kw.tip) /\ (\E i \in 1..Len(P.vs) : P.vs[i] > 0) /\ T.dev # "base",
       ev.out # "ok" /\ PipRecs(ev.recs) = <<>>),
    Cl("C09.comment", viaWl /\ F.records /\ ev.out = "ok" /\ a.labelok,
       CommentTexts(ev.recs) = CommentRecords(a.label.lines) /\ (\A i \in 1..Len(ev.recs) : ev.recs[i].t \in {"C", tag})),
    Cl("C03.oversized", viaWl /\ valid /\ rout = "ok" /\ ~fits /\ T.dev # "base", ev.out = "invalidop"),
    Cl("C16.base", viaWl /\ T.dev = "base" /\ valid /\ rout = "ok" /\ (\E i \in 1..Len(P.vs) : P.vs[i] > 0),
       ev.out # "ok" /\ PipRecs(ev.recs) = <<>>),
    Cl("C01.robot", viaWl /\ F.robot /\ live /\ ev.out = "ok",
       LET rb == Run(T, vol, TrackedComp(tr), ev.recs) IN rb.err = "" /\ rb.vol = post.vol),
    \* a well id that does not exist in the labware: the call raises and no pipetting record is emitted
    Cl("C08.badwell", P.ok /\ Len(P.ws) >= 1 /\ (\A i \in 1..Len(P.ws) : ~ValidWell(L.g, P.ws[i])),
       ev.out # "ok" /\ ev.recs = <<>>),
    \* ... also when only some of the named wells do not exist and whatever the volumes are (zero included)
    Cl("C08.anybad", P.ok /\ (\E i \in 1..Len(P.ws) : ~ValidWell(L.g, P.ws[i])),
       ev.out # "ok" /\ ev.recs = <<>>)
  }

(***************************************************************************)
(* transfer                                                                *)
(***************************************************************************)
JudgeTransfer(tr, T, ev) ==
  LET a == ev.a  post == ev.post  pc == CompOf(post.comp)  F == tr.flags
      trp == TransferTriples(a)
      x == trp.x
      valid == TransferValid(T, a) /\ WashValid(a.wash) /\ KwValid(a.kw) /\ a.labelok
      neg == trp.ok /\ \E i \in 1..Len(x) : x[i].v < 0
      body == Body(ev.recs)
      kwa == [a EXCEPT !.kw = IF KwValid(a.kw) THEN KwValues(a.kw) ELSE DefaultKw]
      ref == RefTransfer(T, [vol |-> vol, comp |-> TrackedComp(tr), hist |-> [k \in 1..NLw(tr) |-> <<Entry(FALSE, "", vol[k])>>]], kwa)
      ok == ev.out = "ok"
      sized == T.autosplit \/ \A i \in 1..Len(x) : x[i].v <= T.wlmax
      \* the reference split rounds to whole microlitres; it is comparable only for units of 1/k microlitre
      refok == tr.splitting \/ \A i \in 1..Len(x) : x[i].v <= T.wlmax
      same == a.src = a.dst
      \* the order among triples whose well on the partitioning side is the same is not pinned by any property (C18): where
      \* it could decide whether or how a transfer fails, nothing is demanded
      side == TransferSide(T, a)
      tiefree == \A i \in 1..Len(x) : \A j \in 1..Len(x) : i # j => SideWell(x[i], side) # SideWell(x[j], side)
      orderfree == tiefree \/ a.src # a.dst
      extra == ExtraPairs(T, x)
      rb == Run(T, vol, TrackedComp(tr), ev.recs)
  IN {
    Cl("C07.reject", T.dev # "base" /\ (~trp.ok \/ neg), ~ok /\ post.vol = vol /\ PipRecs(ev.recs) = <<>>),
    Cl("C18.mode", T.dev # "base" /\ trp.ok /\ ~ValidMode(a.pby), ~ok /\ post.vol = vol /\ PipRecs(ev.recs) = <<>>),
    Cl("C16.base", T.dev = "base", ev.out = "compat" /\ post.vol = vol /\ ev.recs = <<>>),
    Cl("C04.transfer", T.dev # "base" /\ valid /\ ok, post.vol = ApplyTriples(T, a, x, vol)),
    Cl("C08.badwell", T.dev # "base" /\ trp.ok /\ Len(x) >= 1 /\ ValidMode(a.pby)
                      /\ ((\A i \in 1..Len(x) : ~ValidWell(T.lw[a.src].g, x[i].s)) \/ (\A i \in 1..Len(x) : ~ValidWell(T.lw[a.dst].g, x[i].d)))
                      /\ (\A i \in 1..Len(x) : x[i].v > 0),
       ~ok /\ ev.recs = <<>>),
    \* ... and so does a transfer that names one unknown well among known ones, on either side, also within one labware
    Cl("C08.anybad", T.dev # "base" /\ trp.ok /\ Len(x) >= 1 /\ ValidMode(a.pby) /\ WashValid(a.wash) /\ KwValid(a.kw) /\ a.labelok /\ ~neg
                     /\ (\E i \in 1..Len(x) : ~ValidWell(T.lw[a.src].g, x[i].s) \/ ~ValidWell(T.lw[a.dst].g, x[i].d)),
       ~ok /\ ev.recs = <<>> /\ post.vol = vol),
    Cl("C07.accept", T.dev # "base" /\ valid /\ sized /\ refok /\ ref.out = "ok" /\ orderfree, ok),
    \* never refused for its size, with whatever exception (the volumes fit the labware: the reference run succeeds)
    Cl("C06.neverrefused", T.dev # "base" /\ valid /\ T.autosplit /\ refok /\ ref.out = "ok" /\ orderfree, ok),
    \* ... also where the unit of the trace does not allow the reference split to be computed: between two different labware
    \* the source only falls and the destination only rises, so a feasible end state means every split is feasible
    Cl("C06.neverrefused", T.dev # "base" /\ valid /\ T.autosplit /\ ~refok /\ a.src # a.dst
                           /\ LET fin == ApplyTriples(T, a, x, vol) IN
                              /\ \A i \in 1..Len(vol[a.src]) : fin[a.src][i] >= T.lw[a.src].minv \/ fin[a.src][i] = vol[a.src][i]
                              /\ \A i \in 1..Len(vol[a.dst]) : fin[a.dst][i] <= T.lw[a.dst].maxv \/ fin[a.dst][i] = vol[a.dst][i],
       ok),
    Cl("C06.nosplit", T.dev # "base" /\ valid /\ ~sized /\ refok /\ ref.out = "invalidop", ev.out = "invalidop"),
    Cl("C02.outcome", T.dev # "base" /\ valid /\ refok /\ ref.out \in {"overflow", "underflow"} /\ ~ev.tiesbig /\ tiefree, ev.out = ref.out),
    Cl("C07.pairs", F.records /\ valid /\ ok, PairsOK(T, a, body)),
    Cl("C07.flows", F.records /\ valid /\ ok, FlowsOK(T, a, x, body)),
    Cl("C18.side", F.records /\ valid /\ ok /\ PairsOK(T, a, body), SideColumnsAscend(T, a, body)),
    \* the flows on the level of volumes (also where the unit is too small for the two-decimal records to be compared):
    \* every requested volume, however small, leaves its source and reaches its destination
    Cl("C07.flowvol", T.dev # "base" /\ valid /\ ok, post.vol = ApplyTriples(T, a, x, vol)),
    Cl("C06.steps", F.records /\ valid, StepsOK(T, body)),
    \* a volume of zero adds nothing, with or without splitting: every record of the body is an aspirate, its dispense, the
    \* tip action of such a pair, or a break - and there are exactly as many tip actions as pairs (none for "reuse")
    Cl("C06.zero", F.records /\ valid /\ ok,
       LET tips == {i \in 1..Len(body) : body[i].t \in {"W", "F"}} IN
       /\ Cardinality(tips) = Cardinality(PairStarts(body)) * Len(WashRecs(T, a.wash))
       /\ Cardinality(PairStarts(body)) = Cardinality({i \in 1..Len(body) : body[i].t = "A"})
       /\ (~T.autosplit => Cardinality(PairStarts(body)) = Cardinality({i \in 1..Len(x) : x[i].v > 0}))),
    Cl("C06.count", F.records /\ valid /\ ok /\ T.autosplit,
       Cardinality(PairStarts(body)) = SumSeq([i \in 1..Len(x) |-> NSteps(x[i].v, T.wlmax)])),
    Cl("C07.breaks", F.records /\ valid /\ ok /\ T.autosplit /\ SplitCols(x, TransferSide(T, a), T.wlmax) # {},
       BreaksOK(T, a, x, body)),
    \* an explicit choice of the side is respected: where the groups end shows in the break records of split volumes
    Cl("C18.breaks", F.records /\ valid /\ ok /\ T.autosplit /\ a.pby \in {"source", "destination"}
                     /\ SplitCols(x, TransferSide(T, a), T.wlmax) # {},
       BreaksOK(T, a, x, body)),
    Cl("C09.kwargs", F.records /\ valid /\ ok,
       LET kv == KwValues(a.kw)  pips == PipRecs(ev.recs) IN
       \A i \in 1..Len(pips) : /\ pips[i].lc = kv.lc /\ pips[i].tip = kv.tip /\ pips[i].rackid = kv.rackid
                               /\ pips[i].racktype = kv.racktype /\ pips[i].tube = kv.tube /\ pips[i].frt = kv.frt),
    Cl("C09.kwreject", T.dev # "base" /\ TransferValid(T, a) /\ ~KwValid(a.kw) /\ Moved(x), ~ok /\ PipRecs(ev.recs) = <<>>),
    Cl("C10.recmask", F.records /\ valid /\ ok,
       LET pips == PipRecs(ev.recs) IN \A i \in 1..Len(pips) : pips[i].tip = TipArgMask(a.kw.tip)),
    Cl("C10.recreject", T.dev # "base" /\ TransferValid(T, a) /\ ~TipArgValid(a.kw.tip) /\ Moved(x), ~ok /\ PipRecs(ev.recs) = <<>>),
    Cl("C09.comment", F.records /\ valid /\ ok, CommentTexts(ev.recs) = (IF a.label.h THEN CommentRecords(a.label.lines) ELSE <<>>)),
    Cl("C01.robot", F.robot /\ live /\ valid /\ ok, rb.err = "" /\ rb.vol = post.vol),
    Cl("C01.failrobot", F.robot /\ live /\ valid /\ ev.out \in {"overflow", "underflow"}, rb.err = "" /\ rb.vol = post.vol),
    Cl("C05.transfercomp", F.robot /\ F.comp /\ cok /\ ev.cs /\ live /\ valid /\ ok /\ rb.err = "" /\ ~rb.unknown,
       \A k \in 1..NLw(tr) : \A i \in 1..Len(post.vol[k]) : post.vol[k][i] > 0 => pc[k][i] = rb.comp[k][i]),
    Cl("C01.robotcomp", F.robot /\ F.comp /\ cok /\ ev.cs /\ live /\ valid /\ ok /\ rb.err = "" /\ ~rb.unknown,
       \A k \in 1..NLw(tr) : \A i \in 1..Len(post.vol[k]) : post.vol[k][i] > 0 => pc[k][i] = rb.comp[k][i]),
    \* which components are present (whatever their fractions; no limit on the dilution depth): replaying the records on
    \* the supports of the logged pre-state gives the logged supports
    Cl("C05.support", F.robot /\ F.comp /\ live /\ valid /\ ok /\ rb.err = "" /\ ~rb.unknown,
       LET rs == RunSup(T, vol, [k \in 1..NLw(tr) |-> [i \in 1..Len(comp[k]) |-> CNames(comp[k][i])]], ev.recs) IN
       \A k \in 1..NLw(tr) : \A i \in 1..Len(post.vol[k]) : post.vol[k][i] > 0 => CNames(pc[k][i]) = rs.sup[k][i]),
    Cl("C05.conserved", F.comp /\ cok /\ ev.cs /\ valid /\ ok,
       LET names == NamesOf(comp, a.src) \cup NamesOf(comp, a.dst) \cup NamesOf(pc, a.src) \cup NamesOf(pc, a.dst)
           Tot(v, c, nm) == IF same THEN Amount(v[a.src], c[a.src], nm)
                            ELSE RAdd(Amount(v[a.src], c[a.src], nm), Amount(v[a.dst], c[a.dst], nm))
       IN \A nm \in names : Tot(vol, comp, nm) = Tot(post.vol, pc, nm)),
    Cl("C05.sourcekeeps", F.comp /\ cok /\ ev.cs /\ valid /\ ok /\ ~same,
       \A i \in 1..Len(post.vol[a.src]) : post.vol[a.src][i] > 0 => pc[a.src][i] = comp[a.src][i]),
    Cl("C11.count", valid /\ ok /\ Moved(x),
       IF same THEN post.hn[a.src] = hn[a.src] + 1
       ELSE post.hn[a.src] = hn[a.src] + 1 /\ post.hn[a.dst] = hn[a.dst] + 1),
    Cl("C11.label", valid /\ ok /\ Moved(x),
       \A k \in {a.src, a.dst} :
          LET e == post.last[k] IN
          IF extra = 0 THEN LabelOK(e, a.label)
          ELSE e.h /\ e.base /\ e.num = extra)
  }

(***************************************************************************)
(* distribute                                                              *)
(***************************************************************************)
JudgeDistribute(tr, T, ev) ==
  LET a == ev.a  post == ev.post  pc == CompOf(post.comp)  F == tr.flags
      ws == FlattenF(a.dw)  n == Len(ws)
      ks == a.src  kd == a.dst
      gs == T.lw[ks].g  gd == T.lw[kd].g
      valid == DistributeValid(T, a) /\ a.textok /\ a.labelok /\ a.md >= 1 /\ a.reuse >= 1
      ref == RefDistribute(T, [vol |-> vol, comp |-> TrackedComp(tr), hist |-> [k \in 1..NLw(tr) |-> <<Entry(FALSE, "", vol[k])>>]], a)
      ok == ev.out = "ok"
      rs == SelectSeq(ev.recs, LAMBDA r : r.t = "R")
      dps == {Pos(T.dev, gd, ws[i]) : i \in 1..n}
      sps == ColumnPositions(T.dev, gs, a.col)
      same == ks = kd
      \* C01 is stated for destinations with pairwise distinct positions (several virtual rows of one trough
      \* column are one position on the Fluent)
      distinctpos == Cardinality(dps) = n
      \* robot replay with the source range the property demands, so that a wrong range is one failing clause
      rb == Run(T, vol, TrackedComp(tr), ReplayRecs(T, ev))
  IN {
    Cl("C16.base", T.dev = "base" /\ IsTrough(gs) /\ a.vol <= T.wlmax /\ DistributeValid(T, a), ~ok /\ rs = <<>>),
    Cl("C06.distsize", a.vol > T.wlmax /\ IsTrough(gs), ev.out = "invalidop" /\ ev.recs = <<>> /\ post.vol = vol),
    Cl("C09.notrough", ~IsTrough(gs), ~ok /\ ev.recs = <<>> /\ post.vol = vol),
    Cl("C08.badwell", T.dev # "base" /\ IsTrough(gs) /\ n >= 1 /\ a.vol <= T.wlmax /\ (\A i \in 1..n : ~ValidWell(gd, ws[i])),
       ~ok /\ ev.recs = <<>>),
    Cl("C04.distribute", T.dev # "base" /\ valid /\ ok,
       post.vol = ref.S.vol),
    Cl("C04.accept", T.dev # "base" /\ valid /\ a.vol <= T.wlmax /\ ref.out = "ok", ok),
    Cl("C02.outcome", T.dev # "base" /\ valid /\ ref.out \in {"overflow", "underflow"}, ev.out = ref.out),
    Cl("C03.failclean", T.dev # "base" /\ valid /\ ev.out \in {"overflow", "underflow"}, rs = <<>>),
    \* the trough column that cannot give what all destinations need is the offending well: it is left as it was
    Cl("C02.offender", T.dev # "base" /\ valid /\ ref.out = "underflow" /\ ev.out = "underflow", post.vol[ks] = vol[ks]),
    Cl("C01.rcount", F.records /\ T.dev # "base" /\ valid /\ ok, Len(rs) = 1 /\ Len(Body(ev.recs)) = 1),
    Cl("C01.rsrcrack", F.records /\ T.dev # "base" /\ valid /\ ok /\ Len(rs) = 1, rs[1].srack = T.lw[ks].name),
    Cl("C01.rsrc", F.records /\ T.dev # "base" /\ valid /\ ok /\ Len(rs) = 1, (rs[1].s1)..(rs[1].s2) = sps),
    \* the numbering rule on its own (C08): destination range on both devices, source range in the EVO numbering (the Fluent
    \* source range of a trough is the known finding recorded under C01.rsrc)
    Cl("C08.rrange", F.records /\ T.dev # "base" /\ valid /\ ok /\ Len(rs) = 1 /\ distinctpos,
       /\ rs[1].d1 = MinOf(dps) /\ rs[1].d2 = MaxOf(dps) /\ ((rs[1].d1)..(rs[1].d2)) \ Range(rs[1].excl) = dps
       /\ (T.dev = "evo" => (rs[1].s1)..(rs[1].s2) = sps)),
    Cl("C01.rdst", F.records /\ T.dev # "base" /\ valid /\ ok /\ Len(rs) = 1 /\ distinctpos,
       /\ rs[1].drack = T.lw[kd].name
       /\ rs[1].d1 = MinOf(dps) /\ rs[1].d2 = MaxOf(dps)
       /\ ((rs[1].d1)..(rs[1].d2)) \ Range(rs[1].excl) = dps
       /\ \A i \in 1..(Len(rs[1].excl) - 1) : rs[1].excl[i] < rs[1].excl[i + 1]
       /\ Range(rs[1].excl) \subseteq (rs[1].d1)..(rs[1].d2)),
    Cl("C09.rfields", F.records /\ T.dev # "base" /\ valid /\ ok /\ Len(rs) = 1,
       /\ rs[1].volc = a.vol * T.unitc
       /\ rs[1].lc = a.lc /\ rs[1].reuse = a.reuse
       /\ rs[1].dir = (IF a.dir = "left_to_right" THEN 0 ELSE 1)
       /\ rs[1].sid = a.sid /\ rs[1].stype = a.stype /\ rs[1].did = a.did /\ rs[1].dtype = a.dtype),
    Cl("C06.multidisp", F.records /\ T.dev # "base" /\ valid /\ ok /\ Len(rs) = 1 /\ a.vol > 0,
       MultiDispOK(a.md, a.vol, T.wlmax, rs[1].md)),
    Cl("C09.comment", F.records /\ valid /\ ok, CommentTexts(ev.recs) = (IF a.label.h THEN CommentRecords(a.label.lines) ELSE <<>>)),
    Cl("C01.robot", F.robot /\ live /\ T.dev # "base" /\ valid /\ ok /\ distinctpos,
       rb.err = "" /\ rb.vol = post.vol),
    Cl("C05.distcomp", F.robot /\ F.comp /\ cok /\ ev.cs /\ live /\ T.dev # "base" /\ valid /\ ok /\ distinctpos /\ rb.err = "" /\ ~rb.unknown,
       \A k \in 1..NLw(tr) : \A i \in 1..Len(post.vol[k]) : post.vol[k][i] > 0 => pc[k][i] = rb.comp[k][i]),
    Cl("C01.robotcomp", F.robot /\ F.comp /\ cok /\ ev.cs /\ live /\ T.dev # "base" /\ valid /\ ok /\ distinctpos /\ rb.err = "" /\ ~rb.unknown,
       \A k \in 1..NLw(tr) : \A i \in 1..Len(post.vol[k]) : post.vol[k][i] > 0 => pc[k][i] = rb.comp[k][i]),
    Cl("C11.count", T.dev # "base" /\ valid /\ ok,
       IF same THEN post.hn[ks] = hn[ks] + 1 ELSE post.hn[ks] = hn[ks] + 1 /\ post.hn[kd] = hn[kd] + 1),
    Cl("C11.label", T.dev # "base" /\ valid /\ ok,
       \A k \in {ks, kd} : LabelOK(post.last[k], a.label))
  }

(***************************************************************************)
(* EVO / Fluent pairing (C16): trace 2j holds the Fluent run of the        *)
(* program whose EVO run is trace 2j-1.                                    *)
(***************************************************************************)
MaskRec(tr, r) ==
  LET trough(name) == \E k \in 1..NLw(tr) : tr.lw[k].name = name /\ tr.lw[k].g.vrows > 0 IN
  IF r.t \in {"A", "D"} THEN [t |-> r.t, f |-> <<r.rack, r.rackid, r.racktype, r.tube, r.lc, r.tiptype, r.frt>>,
                              n |-> <<r.cents, r.tip, IF trough(r.rack) THEN 0 ELSE r.pos>>, x |-> <<>>]
  ELSE IF r.t = "R" THEN [t |-> "R", f |-> <<r.srack, r.sid, r.stype, r.drack, r.did, r.dtype, r.volraw, r.lc>>,
                          n |-> <<r.reuse, r.md, r.dir, IF trough(r.drack) THEN 0 ELSE r.d1, IF trough(r.drack) THEN 0 ELSE r.d2>>,
                          x |-> IF trough(r.drack) THEN <<>> ELSE r.excl]
  ELSE [t |-> r.t, f |-> <<r.raw>>, n |-> <<>>, x |-> <<>>]

JudgePair(tr, ev) ==
  LET other == Traces[tid - 1]
      has == l <= Len(other.events)
      oe == other.events[l]
      class(o) == IF o \in {"overflow", "underflow", "invalidop", "ok"} THEN o ELSE "rejected"
  IN {
    Cl("C16.outcome", tr.pair /\ has, class(ev.out) = class(oe.out)),
    Cl("C16.twin", tr.pair /\ has,
       ev.post.vol = oe.post.vol /\ ev.post.comp = oe.post.comp /\ ev.post.hn = oe.post.hn /\ ev.post.last = oe.post.last),
    Cl("C16.records", tr.pair /\ has /\ tr.flags.records,
       [i \in 1..Len(ev.recs) |-> MaskRec(tr, ev.recs[i])] = [i \in 1..Len(oe.recs) |-> MaskRec(other, oe.recs[i])]),
    Cl("C16.length", tr.pair /\ l = Len(tr.events), Len(other.events) = Len(tr.events))
  }

(***************************************************************************)
(* Low level emitters (C09): comment, wash, decontaminate, flush, commit,  *)
(* set_diti, aspirate_well, dispense_well, reagent_distribution.           *)
(* Numbers are logged as [cls, v] (cls "float" = the non-integer v + 0.5), *)
(* volumes as [cls, m, c]: m thousandths of a microlitre (rounded to two   *)
(* decimals in the record), or c hundredths for values beyond 32 bits.     *)
(***************************************************************************)
NatArg(n) == n.cls = "int" /\ n.v >= 0
\* a whole number handed over in another representation (3.0, numpy.int64(3)): whether the library takes it is not judged;
\* if it does, the record carries the plain integer (C09.foreign, C09.wellformed)
Foreign(n) == n.cls \in {"intfloat", "npint"}
RArgsValid(T, a) ==
  /\ TextOK(a.srack, TRUE) /\ TextOK(a.drack, TRUE) /\ TextOK(a.sid, TRUE) /\ TextOK(a.stype, TRUE)
  /\ TextOK(a.did, TRUE) /\ TextOK(a.dtype, TRUE) /\ TextOK(a.lc, FALSE)
  /\ a.s1.cls = "int" /\ a.s1.v >= 1 /\ a.s2.cls = "int" /\ a.s2.v >= 1
  /\ a.d1.cls = "int" /\ a.d1.v >= 1 /\ a.d2.cls = "int" /\ a.d2.v >= 1
  /\ a.reuse.cls = "int" /\ a.reuse.v >= 1 /\ a.md.cls = "int" /\ a.md.v >= 1
  /\ a.vol.cls = "num" /\ (IF a.vol.m >= 0 THEN (a.vol.m + 5) \div 10 ELSE a.vol.c) >= 0
  /\ (IF a.vol.m >= 0 THEN (a.vol.m + 5) \div 10 ELSE a.vol.c) <= MaxRecordVolumeCents
  /\ (IF a.vol.m >= 0 THEN (a.vol.m + 5) \div 10 ELSE a.vol.c) <= T.wlmaxc
  /\ a.dir \in {"left_to_right", "right_to_left"}
  /\ ~a.exclfrac                                     \* every excluded well is an integer ...
  /\ \A i \in 1..Len(a.excl) : a.excl[i] >= a.d1.v /\ a.excl[i] <= a.d2.v   \* ... inside the destination range
PosArg(n) == n.cls = "int" /\ n.v >= 1
VolCents(v) == IF v.m >= 0 THEN (v.m + 5) \div 10 ELSE v.c
\* the volume as it was given, in thousandths (what fits an aspiration is decided on the volume itself, not on its two-decimal text)
VolMilli(v) == IF v.m >= 0 THEN v.m ELSE v.c * 10
\* k aspirated portions of v fit max_volume (exact in thousandths where TLC's 32 bit integers allow it, in hundredths beyond)
FitsAsp(T, k, v) == IF T.wlmaxc <= 1000000 /\ k <= 201 /\ v.m >= 0 THEN k * VolMilli(v) <= T.wlmaxc * 10 ELSE k * VolCents(v) <= T.wlmaxc
VolArgValid(T, v) == v.cls = "num" /\ VolCents(v) >= 0 /\ VolCents(v) <= MaxRecordVolumeCents /\ VolCents(v) <= T.wlmaxc
LastIsBreak == wl = <<>> \/ wl[Len(wl)].t = "B"

JudgeEmit(tr, T, ev) ==
  LET a == ev.a  fn == a.fn  ok == ev.out = "ok"  n == Len(ev.recs)
      r1 == ev.recs[1]
      none == ev.recs = <<>>
  IN {
    Cl("C09.comment.ok", fn = "comment" /\ ~a.sep,
       ok /\ [i \in 1..n |-> ev.recs[i].t] = [i \in 1..n |-> "C"] /\ CommentTexts(ev.recs) = CommentRecords(a.lines)),
    Cl("C09.comment.sep", fn = "comment" /\ a.sep, ~ok /\ none),
    Cl("C09.wash.ok", fn = "wash" /\ ~T.diti /\ a.n.cls = "int" /\ a.n.v \in 1..4,
       ok /\ n = 1 /\ r1.t = "W" /\ r1.scheme = a.n.v),
    Cl("C09.wash.diti", fn = "wash" /\ T.diti /\ a.n.cls = "int" /\ a.n.v \in 1..4,
       ok /\ n = 1 /\ r1.t = "W" /\ r1.scheme = 0),
    Cl("C09.wash.bad", fn = "wash" /\ ~T.diti /\ ~(a.n.cls = "int" /\ a.n.v \in 1..4) /\ ~Foreign(a.n), ~ok /\ none),
    Cl("C09.foreign", fn = "wash" /\ ~T.diti /\ Foreign(a.n) /\ ok, n = 1 /\ r1.t = "W" /\ r1.scheme = a.n.v /\ a.n.v \in 1..4),
    Cl("C09.foreign", fn = "set_diti" /\ Foreign(a.n) /\ ok, n = 1 /\ r1.t = "S" /\ r1.idx = a.n.v /\ a.n.v >= 0 /\ LastIsBreak),
    Cl("C09.foreign", fn \in {"aspirate_well", "dispense_well"} /\ Foreign(a.pos) /\ ok,
       n = 1 /\ r1.t = (IF fn = "aspirate_well" THEN "A" ELSE "D") /\ r1.pos = a.pos.v /\ r1.cents = VolCents(a.vol)),
    Cl("C09.decon", fn = "decontaminate", IF T.diti THEN ~ok /\ none ELSE ok /\ n = 1 /\ r1.t = "WD"),
    Cl("C09.flush", fn = "flush", ok /\ n = 1 /\ r1.t = "F"),
    Cl("C09.commit", fn = "commit", ok /\ n = 1 /\ r1.t = "B"),
    Cl("C09.setditi.ok", fn = "set_diti" /\ NatArg(a.n) /\ LastIsBreak, ok /\ n = 1 /\ r1.t = "S" /\ r1.idx = a.n.v),
    Cl("C09.setditi.where", fn = "set_diti" /\ ~LastIsBreak, ~ok /\ none),
    Cl("C09.setditi.bad", fn = "set_diti" /\ ~NatArg(a.n) /\ ~Foreign(a.n), ~ok /\ none),
    Cl("C09.well.ok", fn \in {"aspirate_well", "dispense_well"} /\ TextOK(a.rack, TRUE) /\ PosArg(a.pos) /\ VolArgValid(T, a.vol) /\ KwValid(a.kw),
       LET kv == KwValues(a.kw) IN
       /\ ok /\ n = 1 /\ r1.t = (IF fn = "aspirate_well" THEN "A" ELSE "D")
       /\ r1.rack = a.rack.s /\ r1.pos = a.pos.v /\ r1.cents = VolCents(a.vol)
       /\ r1.lc = kv.lc /\ r1.tip = kv.tip /\ r1.rackid = kv.rackid /\ r1.racktype = kv.racktype
       /\ r1.tube = kv.tube /\ r1.frt = kv.frt /\ r1.tiptype = ""),
    \* C10 at the lowest level: the mask of the record is the mask of THIS call's tip argument (nothing is inherited from
    \* neighbouring records; no selection gives an empty field)
    Cl("C10.wellmask", fn \in {"aspirate_well", "dispense_well"} /\ ok /\ n = 1 /\ TipArgValid(a.kw.tip), r1.tip = TipArgMask(a.kw.tip)),
    Cl("C09.well.bad", fn \in {"aspirate_well", "dispense_well"}
                       /\ ~(TextOK(a.rack, TRUE) /\ NatArg(a.pos) /\ VolArgValid(T, a.vol) /\ KwValid(a.kw)) /\ ~Foreign(a.pos),
       ~ok /\ none),
    Cl("C09.r.ok", fn = "reagent_distribution" /\ RArgsValid(T, a),
       /\ ok /\ n = 1 /\ r1.t = "R"
       /\ r1.srack = a.srack.s /\ r1.drack = a.drack.s /\ r1.sid = a.sid.s /\ r1.stype = a.stype.s
       /\ r1.did = a.did.s /\ r1.dtype = a.dtype.s /\ r1.lc = a.lc.s
       /\ r1.s1 = a.s1.v /\ r1.s2 = a.s2.v /\ r1.d1 = a.d1.v /\ r1.d2 = a.d2.v
       /\ r1.volc = VolCents(a.vol) /\ r1.reuse = a.reuse.v
       /\ r1.dir = (IF a.dir = "left_to_right" THEN 0 ELSE 1)
       /\ Range(r1.excl) = Range(a.excl) /\ Len(r1.excl) = Cardinality(Range(a.excl))
       /\ \A i \in 1..(Len(r1.excl) - 1) : r1.excl[i] < r1.excl[i + 1]
       /\ (VolCents(a.vol) > 0 => (r1.md >= 1 /\ r1.md <= a.md.v /\ FitsAsp(T, r1.md, a.vol)
                                   /\ (FitsAsp(T, a.md.v, a.vol) => r1.md = a.md.v)
                                   /\ (~FitsAsp(T, a.md.v, a.vol) => ~FitsAsp(T, r1.md + 1, a.vol))))
       /\ (VolCents(a.vol) = 0 => r1.md = a.md.v)),
    Cl("C09.r.bad", fn = "reagent_distribution" /\ ~RArgsValid(T, a)
                    /\ ~(Foreign(a.s1) \/ Foreign(a.s2) \/ Foreign(a.d1) \/ Foreign(a.d2) \/ Foreign(a.reuse) \/ Foreign(a.md)), ~ok /\ none),
    \* C06: never more multi-dispenses per aspiration than fit into max_volume, reduced only as far as needed
    Cl("C06.rmultidisp", fn = "reagent_distribution" /\ RArgsValid(T, a) /\ ok /\ n = 1 /\ VolCents(a.vol) > 0,
       /\ r1.md >= 1 /\ r1.md <= a.md.v /\ FitsAsp(T, r1.md, a.vol)
       /\ (FitsAsp(T, a.md.v, a.vol) => r1.md = a.md.v)
       /\ (~FitsAsp(T, a.md.v, a.vol) => ~FitsAsp(T, r1.md + 1, a.vol))),
    Cl("C09.emit.one", ok /\ fn # "comment", n = 1)
  }

(***************************************************************************)
(* EVO script commands (C13, C10): evo_aspirate, evo_dispense, evo_wash    *)
(***************************************************************************)
InRange(n, lo, hi) == n.cls = "int" /\ n.v >= lo /\ n.v <= hi

JudgeEvo(tr, T, ev) ==
  LET a == ev.a  k == a.lw  L == T.lw[k]  g == L.g  post == ev.post  F == tr.flags
      ws == FlattenF(a.wells)  n == Len(ws)
      v0 == FlattenF(a.vols)
      vs == Broadcast(v0, n)
      tipsok == \A i \in 1..Len(a.tips) : SymValid(a.tips[i])
      tn == TipNumbers(a.tips)
      wellsok == WellsValid(g, ws)
      \* one scalar volume for all tips, or a list with one volume per tip (a one-element list for several tips is refused)
      shaped == /\ n >= 1 /\ Len(a.tips) = n /\ (a.vols.k = "s" \/ Len(v0) = n)
      onecol == \A i \in 1..n : ws[i][2] = ws[1][2]
      distinct == Cardinality(Range(ws)) = n /\ Cardinality(Range(tn)) = n
      \* ascending tips serve ascending wells: the given assignment must be order preserving
      isomorphic == \A i, j \in 1..n : (tn[i] < tn[j]) <=> (ws[i][1] < ws[j][1])
      canonical == \A i \in 1..(n - 1) : tn[i] < tn[i + 1] /\ ws[i][1] < ws[i + 1][1]
      numsok == /\ InRange(a.grid, 1, 67) /\ InRange(a.site, 1, 128) /\ InRange(a.arm, 0, 1)
                /\ \A i \in 1..Len(vs) : vs[i] >= 0 /\ vs[i] <= T.wlmax
                /\ TextOK(a.lc, FALSE)
      expressible == wellsok /\ tipsok /\ shaped /\ onecol /\ distinct /\ isomorphic /\ numsok
      isAsp == ev.op = "evo_aspirate"
      rr == RemoveRun(L, vol[k], ws, vs, 1)
      ecs == IF a.hascomps /\ tr.flags.comp /\ cok /\ Len(a.comps) = n
             THEN Known([i \in 1..Len(a.comps) |-> Range(a.comps[i])]) ELSE Unknown(n)
      ra == AddRun(L, vol[k], TrackedComp(tr)[k], ws, vs, ecs, 1)
      feasible == wellsok /\ shaped /\ (IF isAsp THEN rr.out = "ok" ELSE ra.out = "ok")
      ok == ev.out = "ok"
      cmds == SelectSeq(ev.recs, LAMBDA r : r.t \in {"BA", "BD"})
      c == cmds[1]
      rb == Run(T, vol, TrackedComp(tr), ev.recs)
  IN {
    \* (a.foreign: the per-tip volumes were handed over in a representation the library need not accept - tuple, array;
    \* whether it does is not judged, what it emits and books if it does is)
    Cl("C13.accept", expressible /\ canonical /\ feasible /\ a.labelok /\ ~a.foreign, ok),
    Cl("C13.reject", ~expressible /\ wellsok /\ shaped, ~ok /\ cmds = <<>>),
    Cl("C13.rejectshape", wellsok /\ ~shaped /\ tipsok, ~ok /\ cmds = <<>>),
    \* C02 for the script commands: a command whose total demand on a real well would break a limit is refused with the
    \* corresponding error (every tip of a scalar volume counts), volumes as the sequential run leaves them
    Cl("C02.outcome", expressible /\ canonical /\ wellsok /\ shaped /\ ~feasible /\ ~a.foreign,
       ev.out = (IF isAsp THEN rr.out ELSE ra.out)),
    Cl("C13.tracking", ok /\ feasible, post.vol[k] = (IF isAsp THEN rr.vol ELSE ra.vol)),
    \* C04 for the script commands: every real well changes by exactly what was asked for (not by the rounded command text)
    \* compositions handed to evo_dispense belong to the wells in the caller's order (the i-th composition to the i-th well)
    Cl("C05.mix", F.comp /\ cok /\ ev.cs /\ ~isAsp /\ a.hascomps /\ ok /\ feasible,
       LET pc == CompOf(post.comp) IN \A i \in 1..Len(ra.vol) : ra.vol[i] > 0 => pc[k][i] = ra.comp[i]),
    Cl("C04.evo", ok /\ feasible, post.vol[k] = (IF isAsp THEN rr.vol ELSE ra.vol)),
    Cl("C13.onecommand", ok, Len(cmds) = 1 /\ Len(Body(ev.recs)) = 1 /\ cmds[1].t = (IF isAsp THEN "BA" ELSE "BD")),
    Cl("C13.wellformed", ok /\ Len(cmds) = 1, c.ok /\ c.nargs = 20 /\ c.tail = <<0, 0, 0, 0>> /\ c.spacing = 1 /\ c.opt = 0),
    Cl("C13.delta", ok /\ Len(cmds) = 1 /\ F.robot, rb.err = "" /\ rb.vol = post.vol),
    Cl("C13.echo", ok /\ Len(cmds) = 1,
       c.lc = a.lc.s /\ c.arm = a.arm.v /\ c.grid = a.grid.v /\ c.site = a.site.v - 1),
    Cl("C10.evomask", ok /\ Len(cmds) = 1 /\ tipsok, c.mask = MaskOfSet(Range(tn))),
    \* C12 inside the command: the selection string has the geometry of the addressed labware (virtual rows for troughs)
    \* and decodes to exactly the named wells
    Cl("C12.command", ok /\ Len(cmds) = 1 /\ wellsok /\ shaped,
       DecodeRows(c.sel) = IdRows(g) /\ DecodeCols(c.sel) = g.cols /\ DecodeWells(c.sel) = Range(ws)),
    Cl("C10.evoslots", ok /\ Len(cmds) = 1 /\ tipsok /\ shaped,
       /\ \A i \in 1..n : c.vols[tn[i]] = RecCents(T, vs[i])
       /\ \A t \in (1..8) \ Range(tn) : c.vols[t] = 0),
    Cl("C03.evostep", Len(cmds) >= 1, \A t \in 1..8 : c.vols[t] <= T.wlmaxc),
    Cl("C09.comment", ok /\ a.labelok, CommentTexts(ev.recs) = (IF a.label.h THEN CommentRecords(a.label.lines) ELSE <<>>)),
    Cl("C11.count", ok, post.hn[k] = hn[k] + 1),
    Cl("C11.label", ok, LabelOK(post.last[k], a.label))
  }

JudgeEvoWash(tr, T, ev) ==
  LET a == ev.a  ok == ev.out = "ok"
      tipsok == \A i \in 1..Len(a.tips) : SymValid(a.tips[i])
      valid == /\ tipsok /\ InRange(a.wg, 1, 67) /\ InRange(a.ws, 1, 128) /\ InRange(a.cg, 1, 67) /\ InRange(a.cs, 1, 128)
               /\ InRange(a.arm, 0, 1) /\ a.wv >= 0 /\ a.wv <= 10000 /\ a.cv >= 0 /\ a.cv <= 10000
               /\ InRange(a.wdelay, 0, 1000) /\ InRange(a.cdelay, 0, 1000) /\ InRange(a.airgap, 0, 100)
               /\ InRange(a.aspeed, 1, 1000) /\ InRange(a.rspeed, 1, 100) /\ InRange(a.fast, 0, 1) /\ InRange(a.low, 0, 1)
      cmds == SelectSeq(ev.recs, LAMBDA r : r.t = "BW")
      c == cmds[1]
  IN {
    Cl("C13.wash.ok", valid,
       /\ ok /\ Len(ev.recs) = 1 /\ Len(cmds) = 1 /\ c.ok /\ c.nargs = 16
       /\ c.ints = <<MaskOfSet(Range(TipNumbers(a.tips))), a.wg.v, a.ws.v - 1, a.cg.v, a.cs.v - 1, a.wdelay.v, a.cdelay.v,
                     a.airgap.v, a.aspeed.v, a.rspeed.v, a.fast.v, a.low.v, 1000, a.arm.v>>
       /\ c.wv = (a.wv + 5) \div 10 /\ c.cv = (a.cv + 5) \div 10),
    \* C10: also the Wash command carries the OR of the distinct tips (repetitions and mixed spellings allowed)
    Cl("C10.washmask", valid /\ ok /\ Len(cmds) = 1 /\ c.nargs = 16, c.ints[1] = MaskOfSet(Range(TipNumbers(a.tips)))),
    Cl("C13.wash.bad", ~valid, ~ok /\ ev.recs = <<>>)
  }

(***************************************************************************)
(* DilutionPlan.to_worklist (C14): the transfers it performs are ordinary  *)
(* events; this summary event carries the plan and what was consumed.      *)
(***************************************************************************)
JudgeDilution(tr, T, ev) ==
  LET a == ev.a  ok == ev.out = "ok"
      planok == a.planned /\ a.Robs = a.R /\ a.Cobs = a.C /\ PlanOrdered(a) /\ PlanWhole(a) /\ PlanBounds(a) /\ PlanBudget(a)
      used(k, i) == a.before[k][i] - a.after[k][i]
  IN {
    Cl("C14.exec.ok", planok /\ a.roomy, ok),
    Cl("C14.exec.conc", planok /\ ok /\ a.small /\ a.fsup /\ (\A i \in 1..Len(a.instr) : a.instr[i].dsteps <= 2),
       \A r \in 1..a.R : \A c \in 1..a.C :
          RMul(a.frac[r][c], a.stock) = ImpliedConc(a, r, c)),
    Cl("C14.exec.stock", planok /\ ok, used(a.stocklw, a.stockcol + 1) = a.vstock * a.upm),
    \* an optional destination plate receives v_destination from EVERY well of the plan (also from columns that needed no diluent)
    Cl("C14.exec.dest", planok /\ ok /\ a.hasdest,
       LET g == T.lw[a.destlw].g IN
       \A r \in 0..(a.R - 1) : \A c \in 0..(a.C - 1) :
          a.after[a.destlw][RealIdx(g, <<r, c>>)] - a.before[a.destlw][RealIdx(g, <<r, c>>)] = a.vdest),
    Cl("C14.exec.diluent", planok /\ ok,
       LET allv == SumSeq([i \in 1..Len(a.instr) |-> SumSeq(a.instr[i].v)]) IN
       /\ used(a.diluentlw, a.diluentcol + 1) <= a.vdiluent * a.upm
       /\ used(a.diluentlw, a.diluentcol + 1) = (a.R * SumSeq(a.vmax) - allv) * a.upm)
  }

(***************************************************************************)
(* Full history programs (C11): the whole history and the printable report *)
(* are logged after every event; the final pseudo event carries the arrays *)
(* obtained from `volumes` earlier, as they are at the end of the program. *)
(***************************************************************************)
\* row-major listing of a column-major flat snapshot of labware geometry g
RowMajor(g, s) == [i \in 1..(g.rows * g.cols) |-> s[((i - 1) % g.cols) * g.rows + ((i - 1) \div g.cols) + 1]]

JudgeFullHist(tr, T, ev) ==
  LET post == ev.post IN {
    Cl("C11.fullprefix", l > 1 /\ tr.events[l - 1].out = "ok" /\ ev.out = "ok" /\ ev.op # "condense",
       \A k \in 1..NLw(tr) :
          LET old == tr.events[l - 1].post.hist[k]  new == post.hist[k] IN
          Len(new) >= Len(old) /\ SubSeq(new, 1, Len(old)) = old),
    Cl("C11.report", ev.out = "ok",
       \A k \in 1..NLw(tr) :
          LET h == post.hist[k]  rp == post.report[k]  g == T.lw[k].g IN
          /\ rp.ok /\ Len(rp.blocks) = Len(h)
          /\ \A i \in 1..Len(h) :
                /\ rp.blocks[i].rowmajor = RowMajor(g, h[i].s)
                /\ rp.blocks[i].h = (h[i].h /\ h[i].l # "")
                /\ rp.blocks[i].h => rp.blocks[i].l = h[i].l),
    Cl("C11.fullkeeps", l > 1 /\ ev.out = "ok" /\ ev.op # "condense",
       \A k \in 1..NLw(tr) :
          LET old == tr.events[l - 1].post.hist[k]  new == post.hist[k] IN
          Len(new) >= Len(old) /\ SubSeq(new, 1, Len(old)) = old),
    Cl("C11.histlen", TRUE, \A k \in 1..NLw(tr) : Len(post.hist[k]) = post.hn[k])
  }

JudgeFinal(tr, T, ev) == {
    Cl("C11.snapshots", TRUE,
       /\ Len(ev.a.held) = l - 1
       /\ \A j \in 1..(l - 1) : ev.a.held[j] = tr.events[j].post.vol)
  }

(***************************************************************************)
(* Direct use of the history API (C11): Labware.log(label) appends the     *)
(* current volumes; condense_log(n, label) replaces the last n entries by  *)
(* one entry holding the newest state, labelled with the given label, the  *)
(* label of the first condensed entry ("first") or of the last ("last").   *)
(***************************************************************************)
Strip(e) == [h |-> e.h, l |-> e.l, s |-> e.s]
JudgeHistApi(tr, T, ev) ==
  LET a == ev.a  k == a.lw  before == [i \in 1..Len(a.hist) |-> Strip(a.hist[i])]
      after == [i \in 1..Len(ev.post.histafter) |-> Strip(ev.post.histafter[i])]
      n == a.n  len == Len(before)
      lab == IF a.mode = "given" THEN [h |-> a.label.h, l |-> a.label.l]
             ELSE IF a.mode = "first" THEN [h |-> before[len - n + 1].h, l |-> before[len - n + 1].l]
             ELSE [h |-> before[len].h, l |-> before[len].l]
  IN {
    Cl("C11.log", ev.op = "log", ev.out = "ok" /\ after = Append(before, [h |-> a.label.h, l |-> a.label.l, s |-> vol[k]])),
    Cl("C11.condense", ev.op = "condense" /\ n >= 1 /\ n <= len,
       ev.out = "ok" /\ after = Append(SubSeq(before, 1, len - n), [h |-> lab.h, l |-> lab.l, s |-> before[len].s])),
    Cl("C11.histvol", TRUE, ev.post.vol = vol)
  }

(***************************************************************************)
(* Saving (C17): save(path), leaving the with-block, entering it, str().   *)
(***************************************************************************)
CpLines(recs) == [i \in 1..Len(recs) |-> recs[i].cp]

\* (EditList - the caller's own list operations on the record list - is defined in RTFile)

JudgeFile(tr, T, ev) ==
  LET a == ev.a  lines == CpLines(wl) IN {
    Cl("C17.content", ev.op \in {"save", "exit"} /\ a.ext = "gwl" /\ a.haspath,
       ev.out = "ok" /\ ev.file.exists /\ ev.file.bytes = FileBytes(lines)),
    Cl("C17.latin1", ev.op \in {"save", "exit"} /\ a.ext = "gwl" /\ a.haspath /\ ev.out = "ok",
       Latin1OK(ev.file.bytes) /\ (lines # <<>> => (Len(ev.file.bytes) > 0 /\ ev.file.bytes[Len(ev.file.bytes)] # LF))),
    Cl("C17.readback", ev.op \in {"save", "exit"} /\ a.ext = "gwl" /\ a.haspath /\ ev.out = "ok" /\ lines # <<>>,
       \* the harness' split at CRLF, and (for files of moderate size) the specification's own splitter
       /\ ev.file.lines = lines
       /\ (Len(ev.file.bytes) <= 4000 => SplitCRLF(ev.file.bytes, 1, <<>>) = lines)),
    \* C01: what the robot executes is the file; read as the 8-bit text the format prescribes it holds the very records the
    \* replay clauses were evaluated on
    Cl("C01.file", ev.op \in {"save", "exit"} /\ a.ext = "gwl" /\ a.haspath /\ ev.out = "ok" /\ lines # <<>>, ev.file.lines = lines),
    \* an extension in other letter cases (".GWL"): whether it is taken is not pinned; if it is, the file that was named holds the records
    Cl("C17.othercase", ev.op = "save" /\ a.ext = "case" /\ ev.out = "ok", ev.file.exists /\ ev.file.bytes = FileBytes(lines)),
    Cl("C17.noext", ev.op = "save" /\ a.ext = "none", ev.out # "ok" /\ ~ev.file.exists),
    \* ... also when the name without the extension was given to the constructor and the block is left
    Cl("C17.noext", ev.op = "exit" /\ a.ext = "none" /\ a.haspath, ev.out # "ok" /\ ~ev.file.exists),
    Cl("C17.nopath", ev.op = "exit" /\ ~a.haspath, ev.out = "ok" /\ ~ev.file.exists),
    Cl("C17.enter", ev.op \in {"enter", "clear"}, ev.out = "ok" /\ ev.wlen = 0),
    Cl("C17.listedit", ev.op = "listedit", ev.out = "ok" /\ ev.wlen = Len(EditList(wl, a))),
    Cl("C17.str", ev.op = "str", ev.out = "ok" /\ ev.strlines = lines),
    Cl("C17.unchanged", ev.op \in {"save", "exit", "str"}, ev.recs = <<>> /\ ev.wlen = Len(wl))
  }

(***************************************************************************)
JudgeEvent(tr, T, ev) ==
  Common(tr, T, ev)
  \cup (CASE ev.op \in {"add", "remove", "aspirate", "dispense"} -> JudgeLabwareOp(tr, T, ev)
          [] ev.op = "transfer" -> JudgeTransfer(tr, T, ev)
          [] ev.op = "distribute" -> JudgeDistribute(tr, T, ev)
          [] ev.op \in {"save", "exit", "enter", "str", "clear", "listedit"} -> JudgeFile(tr, T, ev)
          [] ev.op = "emit" -> JudgeEmit(tr, T, ev)
          [] ev.op \in {"evo_aspirate", "evo_dispense"} -> JudgeEvo(tr, T, ev)
          [] ev.op = "evo_wash" -> JudgeEvoWash(tr, T, ev)
          [] ev.op = "dilution" -> JudgeDilution(tr, T, ev)
          [] ev.op = "final" -> JudgeFinal(tr, T, ev)
          [] ev.op \in {"log", "condense"} -> JudgeHistApi(tr, T, ev)
          [] ev.op = "external" -> {}
          [] ev.op = "rawemit" -> {}
          \* assigning public attributes (worklist configuration, labware limits): whether the assignment is possible is
          \* not part of any property; if it is, nothing is pipetted or logged by it
          [] ev.op \in {"setconfig", "setlimits"} ->
               {Cl("C01.config", ev.out = "ok", ev.recs = <<>> /\ ev.post.vol = vol /\ ev.post.hn = hn)}
          [] OTHER -> {Cl("machinery.unknown_op", TRUE, FALSE)})
  \cup (IF tr.pair THEN JudgePair(tr, ev) ELSE {})
  \cup (IF tr.flags.fullhist THEN JudgeFullHist(tr, T, ev) ELSE {})

InitOf(t) == LET tr == Traces[t] IN
  [vol |-> [k \in 1..NLw(tr) |-> tr.lw[k].init.vol],
   comp |-> [k \in 1..NLw(tr) |-> [i \in 1..Len(tr.lw[k].init.comp) |-> Range(tr.lw[k].init.comp[i])]],
   hn |-> [k \in 1..NLw(tr) |-> tr.lw[k].init.hn]]

Init == /\ tid = 0 /\ l = 0 /\ vol = <<>> /\ comp = <<>> /\ hn = <<>> /\ wl = <<>> /\ live = TRUE /\ cok = TRUE /\ robv = <<>>
        /\ cfg = [maxv |-> 0, maxc |-> 0, autosplit |-> TRUE, diti |-> FALSE, lim |-> <<>>]
        /\ InitRegisters

\* first step of a trace: judge the constructor observations, load the initial state
StartTrace ==
  /\ IF tid = 0 THEN TRUE ELSE l > Len(Traces[tid].events)
  /\ tid < Len(Traces)
  /\ LET t == tid + 1  tr == Traces[t]  s == InitOf(t) IN
     /\ Judge([tid |-> t, l |-> 0, id |-> tr.id, op |-> "init"], JudgeInit(tr) \cup JudgeUnobserved(tr))
     /\ tid' = t /\ l' = 1 /\ vol' = s.vol /\ comp' = s.comp /\ hn' = s.hn /\ wl' = <<>> /\ live' = TRUE /\ cok' = TRUE /\ robv' = s.vol
     /\ cfg' = CfgOf(tr)

Step ==
  /\ tid >= 1 /\ l <= Len(Traces[tid].events)
  /\ LET tr == Traces[tid]  ev == tr.events[l]  T == HdrT(tr) IN
     /\ Judge([tid |-> tid, l |-> l, id |-> tr.id, op |-> ev.op], JudgeEvent(tr, T, ev))
     /\ l' = l + 1 /\ tid' = tid
     /\ vol' = ev.post.vol /\ comp' = CompOf(ev.post.comp) /\ hn' = ev.post.hn
     /\ wl' = IF ev.op \in {"enter", "clear"} THEN <<>>    \* (a worklist is a list: the caller may clear it ...)
              ELSE IF ev.op = "listedit" THEN (IF ev.out = "ok" THEN EditList(wl, ev.a) ELSE wl)   \* (... or edit it)
              ELSE wl \o ev.recs
     /\ live' = (live /\ ev.out = "ok" /\ ~Untracked(ev))
     /\ cok' = (cok /\ ev.cs)
     /\ cfg' = IF ev.op = "setconfig" /\ ev.out = "ok"
               THEN [cfg EXCEPT !.maxv = ev.a.maxv, !.maxc = ev.a.maxc, !.autosplit = ev.a.autosplit, !.diti = ev.a.diti]
               ELSE IF ev.op = "setlimits" /\ ev.out = "ok"
               THEN [cfg EXCEPT !.lim[ev.a.lw] = <<ev.a.minv, ev.a.maxv>>]
               ELSE cfg
     /\ robv' = IF tr.flags.robot /\ live /\ ev.op \in TrackedOps
                THEN LET rb == Run(T, robv, EmptyComp(tr), ReplayRecs(T, ev)) IN IF rb.err = "" THEN rb.vol ELSE robv
                ELSE ev.post.vol     \* direct labware operations change the physical contents outside any worklist

Next == StartTrace \/ Step
Post == WriteVerdicts
=============================================================================
