CONSTANTS MaxN = 80 MaxL = 26
INIT Init
NEXT Next
INVARIANT InvLength
INVARIANT InvCycles
INVARIANT InvPeriodic
INVARIANT InvAtMostLen
INVARIANT InvBlockDistinct
INVARIANT InvFlatten2D
CHECK_DEADLOCK FALSE
