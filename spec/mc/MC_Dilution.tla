----------------------------- MODULE MC_Dilution -----------------------------
(***************************************************************************)
(* C14 on the model: every plan over R = 2 rows and C = 3 columns with     *)
(* transfer volumes 1..MaxV and column volume VMax that satisfies the      *)
(* contract (ordered, bounded, within budget) is executed with the         *)
(* schedule of to_worklist on a model of the dilution plate: each column   *)
(* receives its transfer, is filled up to VMax with diluent and then       *)
(* serves the columns prepared from it.  A column never underflows and     *)
(* the stock fraction in every well is the chained concentration.          *)
(* One state per plan.                                                     *)
(***************************************************************************)
EXTENDS RTDilution, Sequences
CONSTANTS MaxV, VMax
VARIABLES src2, src3, v1, v2, v3

R == 2
C == 3
Vols == [1..R -> 1..MaxV]

Init == /\ src2 \in {0, 1} /\ src3 \in {0, 1, 2}
        /\ v1 \in Vols /\ v2 \in Vols /\ v3 \in Vols
Next == UNCHANGED <<src2, src3, v1, v2, v3>>

plan == [R |-> R, C |-> C, stock |-> <<10, 1>>, vmax |-> <<VMax, VMax, VMax>>, mint10 |-> 10,
         instr |-> << [col |-> 1, src |-> 0, v |-> v1, whole |-> TRUE], [col |-> 2, src |-> src2, v |-> v2, whole |-> TRUE],
                      [col |-> 3, src |-> src3, v |-> v3, whole |-> TRUE] >>]
Contract == PlanOrdered(plan) /\ PlanWhole(plan) /\ PlanBounds(plan) /\ PlanBudget(plan)

\* schedule: wells are [vol, f] with f the stock fraction
Empty == [r \in 1..R |-> [c \in 1..C |-> [vol |-> 0, f |-> RZero]]]
Take(w, r, c, x) == [w EXCEPT ![r][c].vol = @ - x]
Give(w, r, c, x, f) == [w EXCEPT ![r][c] = [vol |-> @.vol + x, f |-> IF @.vol + x = 0 THEN @.f ELSE RMix(@.f, @.vol, f, x)]]

RECURSIVE Serve(_, _, _)
\* after column c is prepared: transfer to every column that is prepared from it, in instruction order
Serve(w, c, i) ==
  IF i > C THEN w
  ELSE IF plan.instr[i].src = c
       THEN LET RECURSIVE Rows(_, _)
                Rows(ww, r) == IF r > R THEN ww
                               ELSE Rows(Give(Take(ww, r, c, plan.instr[i].v[r]), r, plan.instr[i].col, plan.instr[i].v[r], ww[r][c].f), r + 1)
            IN Serve(Rows(w, 1), c, i + 1)
       ELSE Serve(w, c, i + 1)

RECURSIVE Prepare(_, _)
Prepare(w, i) ==
  IF i > C THEN w
  ELSE LET it == plan.instr[i]  c == it.col
           RECURSIVE Fill(_, _)
           Fill(ww, r) == IF r > R THEN ww
                          ELSE LET w1 == IF it.src = 0 THEN Give(ww, r, c, it.v[r], ROne) ELSE ww
                                   w2 == Give(w1, r, c, VMax - it.v[r], RZero)
                               IN Fill(w2, r + 1)
       IN Prepare(Serve(Fill(w, 1), c, 1), i + 1)

Final == Prepare(Empty, 1)

\* while executing, no well ever goes below zero: checked on the final state and by the budget argument
InvNoUnderflow == Contract => \A r \in 1..R : \A c \in 1..C : Final[r][c].vol >= 0
\* the tracked stock fraction times the stock concentration is the chained concentration
InvConcentration == Contract => \A r \in 1..R : \A c \in 1..C :
                       RMul(Final[r][c].f, plan.stock) = ImpliedConc(plan, r, c)
\* remaining volume = VMax minus what the dependents drew
InvRemaining == Contract => \A r \in 1..R : \A c \in 1..C : Final[r][c].vol = VMax - Drawn(plan, c, r)
=============================================================================
