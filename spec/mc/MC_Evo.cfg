CONSTANTS MaxLen = 3
INIT Init
NEXT Next
INVARIANT InvExpressibleAgrees
INVARIANT InvInexpressibleDiffers
INVARIANT InvMask
CHECK_DEADLOCK FALSE
