CONSTANTS Dev = "evo" WlMax = 2 AutoSplit = FALSE MaxDepth = 2 Family = "mixed"
INIT GInit
NEXT GNext
CONSTRAINT Collect
POSTCONDITION Emit
CHECK_DEADLOCK FALSE
