------------------------------- MODULE MC_File -------------------------------
(***************************************************************************)
(* C17 on the model: a file system maps a path to a byte sequence; save    *)
(* replaces the content by the records joined with CRLF.  For every record *)
(* list of up to MaxRecs records over a three letter alphabet (including   *)
(* the Latin-1 letter 181 and the separator 59) and every pre-existing     *)
(* content, after save the file is exactly the join, has no trailing       *)
(* break, and splitting at CRLF returns the records.  A second save with   *)
(* a shorter list leaves no residue.                                       *)
(***************************************************************************)
EXTENDS RTFile
CONSTANTS MaxRecs, MaxLen
VARIABLES fs, wl, saved

Alphabet == {65, 59, 181}
Lines == UNION {[1..n -> Alphabet] : n \in 1..MaxLen}
Lists == UNION {[1..n -> Lines] : n \in 0..MaxRecs}
PreContents == {<<>>, <<81>>, <<88, 13, 10, 88, 13, 10, 88, 88, 88, 88, 88, 88, 88, 88, 88, 88, 88, 88, 88, 88>>}

Save(lines) == fs' = FileBytes(lines) /\ saved' = lines

Init == fs \in PreContents /\ wl \in Lists /\ saved = <<>>
\* save, then clear the worklist (entering a with-block) or drop the last record and save again
Next == \/ Save(wl) /\ UNCHANGED wl
        \/ wl # <<>> /\ wl' = SubSeq(wl, 1, Len(wl) - 1) /\ UNCHANGED <<fs, saved>>
        \/ wl' = <<>> /\ UNCHANGED <<fs, saved>>

Written == saved # <<>> \/ fs = <<>>
InvContent == (saved # <<>>) => fs = FileBytes(saved)
InvRoundTrip == (saved # <<>>) => SplitCRLF(fs, 1, <<>>) = saved
InvNoTrailingBreak == (saved # <<>>) => fs[Len(fs)] # LF
InvLatin1 == Latin1OK(fs)
InvLemmas == RoundTrip(wl) /\ NoTrailingBreak(wl)
=============================================================================
