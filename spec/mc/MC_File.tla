------------------------------- MODULE MC_File -------------------------------
(***************************************************************************)
(* C17 on the model: a file system maps a path to a byte sequence; save    *)
(* replaces the content by the records joined with CRLF.  For every record *)
(* list of up to MaxRecs records over a three letter alphabet (including   *)
(* the Latin-1 letter 181 and the separator 59) and every pre-existing     *)
(* content, after save the file is exactly the join, has no trailing       *)
(* break, and splitting at CRLF returns the records.  A second save with   *)
(* a shorter list leaves no residue.  With Edits the caller also edits the *)
(* record list with the list's own operations (EditList) between saves:    *)
(* what a save writes is the list as it is at that moment.                 *)
(***************************************************************************)
EXTENDS RTFile
CONSTANTS MaxRecs, MaxLen, Edits
VARIABLES fs, wl, saved

Alphabet == {65, 59, 181}
Lines == UNION {[1..n -> Alphabet] : n \in 1..MaxLen}
Lists == UNION {[1..n -> Lines] : n \in 0..MaxRecs}
PreContents == {<<>>, <<81>>, <<88, 13, 10, 88, 13, 10, 88, 88, 88, 88, 88, 88, 88, 88, 88, 88, 88, 88, 88, 88>>}

Save(lines) == fs' = FileBytes(lines) /\ saved' = lines

Init == fs \in PreContents /\ wl \in Lists /\ saved = <<>>
\* save, then clear the worklist (entering a with-block) or drop the last record and save again
Next == \/ Save(wl) /\ UNCHANGED wl
        \/ wl # <<>> /\ wl' = SubSeq(wl, 1, Len(wl) - 1) /\ UNCHANGED <<fs, saved>>
        \/ wl' = <<>> /\ UNCHANGED <<fs, saved>>
        \/ /\ Edits
           /\ \E kind \in {"pop0", "reverse", "insert", "setitem", "delslice"}, i \in 0..MaxRecs, j \in 0..MaxRecs, r \in {<<65>>, <<181, 59>>} :
                 /\ CASE kind = "pop0" -> wl # <<>>
                      [] kind = "insert" -> i <= Len(wl) /\ Len(wl) < MaxRecs
                      [] kind = "setitem" -> i < Len(wl)
                      [] kind = "delslice" -> i <= j /\ j <= Len(wl)
                      [] OTHER -> TRUE
                 /\ wl' = EditList(wl, [kind |-> kind, i |-> i, j |-> j, rec |-> r])
           /\ UNCHANGED <<fs, saved>>

Written == saved # <<>> \/ fs = <<>>
InvContent == (saved # <<>>) => fs = FileBytes(saved)
InvRoundTrip == (saved # <<>>) => SplitCRLF(fs, 1, <<>>) = saved
InvNoTrailingBreak == (saved # <<>>) => fs[Len(fs)] # LF
InvLatin1 == Latin1OK(fs)
InvLemmas == RoundTrip(wl) /\ NoTrailingBreak(wl)
\* the list operations do what Python's do (lengths; reverse and pop0 are undone by reverse and insert at 0)
InvEdits == /\ Len(EditList(wl, [kind |-> "reverse", i |-> 0, j |-> 0, rec |-> <<>>])) = Len(wl)
            /\ EditList(EditList(wl, [kind |-> "reverse", i |-> 0, j |-> 0, rec |-> <<>>]), [kind |-> "reverse", i |-> 0, j |-> 0, rec |-> <<>>]) = wl
            /\ \A i \in 0..Len(wl) : LET w2 == EditList(wl, [kind |-> "insert", i |-> i, j |-> 0, rec |-> <<65>>]) IN
                  /\ Len(w2) = Len(wl) + 1 /\ w2[i + 1] = <<65>>
                  /\ EditList(w2, [kind |-> "delslice", i |-> i, j |-> i + 1, rec |-> <<>>]) = wl
=============================================================================
