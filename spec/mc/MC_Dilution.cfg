CONSTANTS MaxV = 3 VMax = 4
INIT Init
NEXT Next
INVARIANT InvNoUnderflow
INVARIANT InvConcentration
INVARIANT InvRemaining
CHECK_DEADLOCK FALSE
