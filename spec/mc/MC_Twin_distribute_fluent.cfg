CONSTANTS Dev = "fluent" WlMax = 2 AutoSplit = TRUE MaxDepth = 1 Family = "distribute"
INIT Init
NEXT Next
INVARIANT InvTwinEqualsRobot
INVARIANT InvReplayWithinLimits
INVARIANT InvStepMax
INVARIANT InvBounds
INVARIANT InvLimitsStep
INVARIANT InvCompSane
INVARIANT InvSupport
INVARIANT InvCompNormalised
INVARIANT InvConserved
INVARIANT InvRemoveKeeps
INVARIANT InvHist
INVARIANT InvPlan
INVARIANT InvReject
INVARIANT InvSmallDenominators
CHECK_DEADLOCK FALSE
