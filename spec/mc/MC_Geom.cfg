CONSTANTS MaxR = 12 MaxC = 14 MaxV = 12 MaxTC = 8
INIT Init
NEXT Next
INVARIANT InvEvoBijective
INVARIANT InvFluentOnReal
INVARIANT InvAddressesCavity
INVARIANT InvRoundTrip
INVARIANT InvDeviceDifference
INVARIANT InvIdsDistinct
CHECK_DEADLOCK FALSE
