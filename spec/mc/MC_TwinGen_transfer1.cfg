CONSTANTS Dev = "evo" WlMax = 2 AutoSplit = TRUE MaxDepth = 1 Family = "transfer"
INIT GInit
NEXT GNext
CONSTRAINT Collect
POSTCONDITION Emit
CHECK_DEADLOCK FALSE
