------------------------------- MODULE MC_Split -------------------------------
(***************************************************************************)
(* C06 on the model: for every volume v <= MaxV and every max_volume       *)
(* M in 1..MaxM (in units of 1/K microlitre, so that integer and           *)
(* non-integer microlitre values of max_volume are covered) the reference  *)
(* split satisfies the contract.  One state per (v, M, K).                 *)
(* With Cap = FALSE (the implementation before the repair of F-01) TLC     *)
(* reports a counterexample, e.g. v = 5, M = 3, K = 2.                     *)
(***************************************************************************)
EXTENDS RTPlan
CONSTANTS MaxV, MaxM, Ks, Cap
VARIABLES v, M, K

Init == v \in 0..MaxV /\ M \in 1..MaxM /\ K \in Ks
Next == UNCHANGED <<v, M, K>>

Steps == RefSplitG(v, M, K, Cap)
InvValidSplit == IsValidSplit(v, M, Steps)
\* an automatically split volume is never refused for size: every step fits
InvStepsFit == \A i \in 1..Len(Steps) : Steps[i] <= M
\* minimality: one step less could not carry the volume
InvMinimal == v > 0 => (Len(Steps) - 1) * M < v
\* link to the unbounded TLAPS lemma proofs/SplitValid: the quantities RefSplitG computes satisfy the lemma's hypotheses
\* (checked here on the instance; the lemma then gives validity for every v and M)
InvLemmaHypotheses ==
  (v >= M /\ Cap) =>
     LET n == CeilDiv(v, M)  raw == CeilDiv(v, n * K) * K IN
     /\ n >= 1 /\ (n - 1) * M < v /\ v <= n * M /\ raw * n >= v
     /\ Steps = [i \in 1..n |-> IF i < n THEN Min(raw, M) ELSE v - (n - 1) * Min(raw, M)]
\* multi-dispense reduction of reagent distributions
InvMultiDisp == \A md0 \in 1..8 : (v > 0 /\ v <= M) => MultiDispOK(md0, v, M, RefMultiDisp(md0, v, M))
=============================================================================
