CONSTANTS Dev = "fluent" WlMax = 2 AutoSplit = TRUE MaxDepth = 1 Family = "transferq"
INIT GInit
NEXT GNext
CONSTRAINT Collect
POSTCONDITION Emit
CHECK_DEADLOCK FALSE
