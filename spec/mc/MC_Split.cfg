CONSTANTS MaxV = 96 MaxM = 24 Ks = {1, 2, 4} Cap = TRUE
INIT Init
NEXT Next
INVARIANT InvValidSplit
INVARIANT InvStepsFit
INVARIANT InvMinimal
INVARIANT InvLemmaHypotheses
INVARIANT InvMultiDisp
CHECK_DEADLOCK FALSE
