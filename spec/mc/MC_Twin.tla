------------------------------- MODULE MC_Twin -------------------------------
(***************************************************************************)
(* Bounded model of the digital twin, the record list and the robot.       *)
(*                                                                         *)
(* Two labware: plate P (2 x 2) and trough Q (2 virtual rows x 2 columns). *)
(* Every operation of the alphabet Ops is tried in every reachable state;  *)
(* failing operations are ordinary transitions, so every abort point of    *)
(* every multi-step operation is a reachable state (fault enumeration).    *)
(* Step properties are computed into chk (constant TRUE on a correct       *)
(* model) because action properties over primed recursive operators are    *)
(* prohibitively slow in TLC.                                              *)
(***************************************************************************)
EXTENDS RTWorklist

\* TLC compares records field by field in the order in which the field names first occur in the root module.  Shape
\* arguments [k, x] carry a scalar, a list or a matrix in x: the tag k has to be met first, otherwise building the
\* operation alphabet dies with "attempted to compare integer with non-integer".  This definition pins that order.
FieldOrderPin == [k |-> 0, x |-> 0]

CONSTANTS Dev,        \* "evo" | "fluent"
          WlMax,      \* worklist max_volume (units)
          AutoSplit,
          MaxDepth,
          Family      \* which operation alphabet

VARIABLES S, wl, out, allok, prevok, tracked, nodisp, S0, chk, depth,
          cfg,       \* the worklist's public configuration [wlmax, autosplit]; callers may assign it between operations
          lim        \* the labware's public volume limits
vars == <<S, wl, out, allok, prevok, tracked, nodisp, S0, chk, depth, cfg, lim>>

P == 1
Q == 2
\* configurations a caller may switch to (family "config" only); every operation obeys the one current at its call
Cfgs == IF Family = "config"
        THEN {[wlmax |-> 2, autosplit |-> TRUE, diti |-> FALSE], [wlmax |-> 5, autosplit |-> TRUE, diti |-> FALSE],
              [wlmax |-> 3, autosplit |-> FALSE, diti |-> FALSE], [wlmax |-> 2, autosplit |-> TRUE, diti |-> TRUE]}
        ELSE {}
MaxWlMax == LET all == {WlMax} \cup {c.wlmax : c \in Cfgs} IN CHOOSE m \in all : \A y \in all : y <= m
\* the volume limits <<min_volume, max_volume>> of the two labware are public attributes as well (family "config":
\* the plate's maximum is tightened to 3 and widened again, the trough's minimum raised to 4 and lowered again)
Lim0 == << <<0, 6>>, <<1, 8>> >>
Lims == IF Family = "config" THEN {Lim0, << <<0, 3>>, <<1, 8>> >>, << <<0, 6>>, <<4, 8>> >>} ELSE {}
T == [dev |-> Dev, unitc |-> 100, k |-> 1, wlmax |-> cfg.wlmax, wlmaxc |-> cfg.wlmax * 100,
      autosplit |-> cfg.autosplit, diti |-> cfg.diti,
      lw |-> << [name |-> "P", g |-> PlateGeom(2, 2), minv |-> lim[1][1], maxv |-> lim[1][2], grid |-> 11, site |-> 0],
                [name |-> "Q", g |-> TroughGeom(2, 2), minv |-> lim[2][1], maxv |-> lim[2][2], grid |-> 12, site |-> 1] >>]

NoLabel == [h |-> FALSE, l |-> "", lines |-> <<>>]
Lab(s)  == [h |-> TRUE, l |-> s, lines |-> <<s>>]

Sc(x) == [k |-> "s", x |-> x]
Li(x) == [k |-> "l", x |-> x]
Mx(x) == [k |-> "m", x |-> x]

\* a few wells per labware (B01 of the trough is an alias of A01)
WellsOf(k) == IF k = P THEN {<<0, 0>>, <<1, 0>>, <<0, 1>>} ELSE {<<0, 0>>, <<1, 0>>, <<0, 1>>}
Lists1(k) == {<<w>> : w \in WellsOf(k)}
Lists2(k) == {<<w1, w2>> : w1 \in WellsOf(k), w2 \in WellsOf(k)}

\* discriminating two-element well lists: sorted, reversed, two columns, a repeated well
Pairs2 == {<< <<0, 0>>, <<1, 0>> >>, << <<1, 0>>, <<0, 0>> >>, << <<0, 0>>, <<0, 1>> >>, << <<0, 1>>, <<1, 0>> >>, << <<0, 0>>, <<0, 0>> >>}

LwOp(o, k, ws, vs, lb) ==
  [op |-> o, lw |-> k, wells |-> ws, vols |-> vs, label |-> lb, hascomps |-> FALSE, comps |-> <<>>, kw |-> DefaultKw]

LabwareOps ==
  UNION {
    {LwOp(o, k, Li(ws), Sc(v), NoLabel) : o \in {"add", "remove", "aspirate", "dispense"},
                                          ws \in Lists1(k) \cup Lists2(k), v \in {0, 1, 3}}
    \cup
    {LwOp(o, k, Li(ws), Li(vs), Lab("x")) : o \in {"add", "remove"}, ws \in Lists2(k), vs \in {<<1, 2>>, <<2, 0>>}}
    : k \in {P, Q}}
  \cup
  \* 2-D arguments: column-major pairing
  {LwOp(o, P, Mx(<< << <<0, 0>>, <<0, 1>> >>, << <<1, 0>>, <<1, 1>> >> >>), Mx(vs), NoLabel) :
      o \in {"add", "remove", "dispense"}, vs \in {<< <<1, 2>>, <<0, 3>> >>}}

DispenseCompOps ==
  UNION {
    {[op |-> "dispense", lw |-> k, wells |-> Li(<<w>>), vols |-> Sc(v), label |-> NoLabel, hascomps |-> TRUE,
      comps |-> <<c>>, kw |-> DefaultKw] :
        w \in WellsOf(k), v \in {0, 2}, c \in {{<<"x", 1, 1>>}, {<<"x", 1, 2>>, <<"y", 1, 2>>}}}
    : k \in {P, Q}}

TrOp(ks, kd, s, d, v, lb, w, pb) ==
  [op |-> "transfer", src |-> ks, dst |-> kd, sw |-> Li(s), dw |-> Li(d), vols |-> v, label |-> lb, wash |-> w,
   pby |-> pb, kw |-> DefaultKw]

TransferOps ==
  UNION { UNION {
    {TrOp(ks, kd, s, d, v, NoLabel, "1", "auto") :
        s \in Lists1(ks), d \in Lists1(kd), v \in {Sc(0), Sc(1), Sc(3), Sc(5)}}
    \cup
    {TrOp(ks, kd, s, d, v, Lab("t"), w, pb) :
        s \in Pairs2, d \in Pairs2, v \in {Sc(1), Li(<<3, 1>>), Li(<<0, 5>>)},
        w \in {"1", "reuse"}, pb \in {"auto", "source", "destination"}}
    \cup
    {TrOp(ks, kd, <<<<0, 0>>, <<1, 0>>>>, <<<<0, 1>>, <<0, 1>>>>, Li(<<2, 3>>), Lab("t"), "flush", "auto")}
    : kd \in {P, Q}} : ks \in {P, Q}}

DiOp(ks, c, kd, d, v, md, lb) ==
  [op |-> "distribute", src |-> ks, col |-> c, dst |-> kd, dw |-> Li(d), vol |-> v, md |-> md, reuse |-> 1, lc |-> "",
   label |-> lb, dir |-> "left_to_right", sid |-> "", stype |-> "", did |-> "", dtype |-> ""]

\* destination lists with pairwise distinct positions on both devices
DistLists(kd) == Lists1(kd) \cup {ws \in Lists2(kd) : ws[1] # ws[2] /\ ~(kd = Q /\ ws[1][2] = ws[2][2])}

DistributeOps ==
  UNION {
    {DiOp(ks, c, kd, d, v, md, lb) :
        ks \in {P, Q}, c \in {0, 1}, d \in DistLists(kd), v \in {0, 1, 2, 3}, md \in {1, 3}, lb \in {NoLabel, Lab("d")}}
    : kd \in {P, Q}}

MixedOps ==
  {TrOp(ks, kd, <<s>>, <<d>>, Sc(3), NoLabel, "1", "auto") :
      ks \in {P, Q}, kd \in {P, Q}, s \in {<<0, 0>>, <<0, 1>>}, d \in {<<0, 0>>, <<1, 0>>}}
  \cup {TrOp(P, P, <<<<0, 0>>, <<1, 0>>>>, <<<<1, 0>>, <<0, 1>>>>, Li(<<1, 1>>), Lab("t"), "reuse", "auto"),
        TrOp(Q, P, <<<<0, 0>>, <<1, 0>>>>, <<<<0, 0>>, <<1, 0>>>>, Sc(1), Lab("t"), "flush", "auto")}
  \cup {DiOp(Q, c, P, d, 1, 1, NoLabel) : c \in {0, 1}, d \in {<<<<0, 0>>, <<1, 1>>>>, <<<<0, 1>>>>}}
  \cup {LwOp("aspirate", k, Li(<<<<0, 0>>>>), Sc(2), NoLabel) : k \in {P, Q}}
  \cup {[op |-> "dispense", lw |-> P, wells |-> Li(<<<<1, 0>>>>), vols |-> Sc(2), label |-> NoLabel, hascomps |-> TRUE,
          comps |-> <<{<<"x", 1, 2>>, <<"y", 1, 2>>}>>, kw |-> DefaultKw]}

\* operations whose outcome and plan depend on the configuration
ConfigOps ==
  {TrOp(Q, P, <<s>>, <<d>>, Sc(v), NoLabel, "1", "auto") : s \in {<<0, 0>>}, d \in {<<0, 0>>, <<0, 1>>}, v \in {3, 5}}
  \cup {TrOp(Q, P, <<<<0, 0>>, <<1, 0>>>>, <<<<0, 0>>, <<1, 0>>>>, Li(<<1, 3>>), Lab("t"), "1", "auto")}
  \cup {DiOp(Q, 0, P, <<<<0, 0>>, <<1, 0>>, <<0, 1>>>>, 1, 3, NoLabel)}
  \cup {LwOp("aspirate", Q, Li(<<<<0, 0>>>>), Sc(3), NoLabel),
        [op |-> "dispense", lw |-> P, wells |-> Li(<<<<1, 1>>>>), vols |-> Sc(4), label |-> NoLabel, hascomps |-> TRUE,
         comps |-> <<{<<"x", 1, 1>>}>>, kw |-> DefaultKw]}

Ops == CASE Family = "labware"    -> LabwareOps \cup DispenseCompOps
         [] Family = "transfer"   -> TransferOps
         [] Family = "distribute" -> DistributeOps \cup {o \in LabwareOps : o.op = "aspirate" /\ o.vols = Sc(1)} \cup DispenseCompOps
         [] Family = "mixed"      -> MixedOps
         [] Family = "config"     -> ConfigOps
         [] Family = "all"        -> LabwareOps \cup DispenseCompOps \cup TransferOps \cup DistributeOps
         [] Family = "transferq"  -> {o \in TransferOps : o.wash # "reuse" /\ o.pby \in {"auto", "destination"}
                                                          /\ (o.src # o.dst \/ o.vols = Li(<<3, 1>>))}
         [] OTHER -> {}

Apply(St, o) ==
  CASE o.op = "add"        -> RefAdd(T, St, o)
    [] o.op = "remove"     -> RefRemove(T, St, o)
    [] o.op = "aspirate"   -> RefAspirate(T, St, o)
    [] o.op = "dispense"   -> RefDispense(T, St, o)
    [] o.op = "transfer"   -> RefTransfer(T, St, o)
    [] o.op = "distribute" -> RefDistribute(T, St, o)

(***************************************************************************)
(* Step checks                                                             *)
(***************************************************************************)
AllNames(St) == UNION {CNames(St.comp[k][i]) : k \in {P, Q}, i \in 1..2} \cup UNION {CNames(St.comp[P][i]) : i \in 1..4}
Total(St, nm) == RAdd(Amount(St.vol[P], St.comp[P], nm), Amount(St.vol[Q], St.comp[Q], nm))

LimitsStep(St, r) ==
  \A k \in {P, Q} : \A i \in 1..Len(St.vol[k]) :
     /\ r.S.vol[k][i] >= 0
     /\ r.S.vol[k][i] > St.vol[k][i] => r.S.vol[k][i] <= T.lw[k].maxv
     /\ r.S.vol[k][i] < St.vol[k][i] => r.S.vol[k][i] >= T.lw[k].minv

ConservedStep(St, o, r) ==
  (o.op = "transfer" /\ r.out = "ok") =>
     \A nm \in AllNames(St) \cup AllNames(r.S) : Total(St, nm) = Total(r.S, nm)

RemoveKeepsStep(St, o, r) ==
  o.op \in {"remove", "aspirate"} => r.S.comp = St.comp

HistStep(St, o, r) ==
  \A k \in {P, Q} :
     /\ Len(r.S.hist[k]) >= Len(St.hist[k])
     /\ SubSeq(r.S.hist[k], 1, Len(St.hist[k])) = St.hist[k]
     /\ r.out = "ok" =>
          /\ r.S.hist[k][Len(r.S.hist[k])].s = r.S.vol[k]
          /\ LET part == IF o.op \in {"transfer", "distribute"} THEN {o.src, o.dst} ELSE {o.lw}
                 moved == IF o.op = "transfer" THEN Moved(TransferTriples(o).x)
                          ELSE IF o.op = "distribute" THEN TRUE ELSE TRUE
             IN IF k \in part /\ moved THEN Len(r.S.hist[k]) = Len(St.hist[k]) + 1
                ELSE IF k \in part THEN TRUE
                ELSE Len(r.S.hist[k]) = Len(St.hist[k])

PlanStep(St, o, r) ==
  (o.op = "transfer" /\ r.out = "ok") =>
     LET x == TransferTriples(o).x  body == Body(r.recs) IN
     /\ PairsOK(T, o, body)
     /\ FlowsOK(T, o, x, body)
     /\ StepsOK(T, body)
     /\ BreaksOK(T, o, x, body)
     /\ r.S.vol = ApplyTriples(T, o, x, St.vol)
     /\ LET lab == LvhLabel(o.label.h, o.label.l, ExtraPairs(T, x))
            e   == r.S.hist[o.src][Len(r.S.hist[o.src])]
        IN Moved(x) => e.h = lab.h /\ e.l = lab.l

RejectStep(St, o, r) ==
  \* an operation rejected for its arguments leaves twin and worklist untouched
  (r.out \in {"other", "value", "compat"} /\ o.op \in {"add", "remove", "transfer", "distribute"}) => r.S = St /\ r.recs = <<>>

StepMaxStep(r) == \A i \in 1..Len(r.recs) : r.recs[i].t \in {"A", "D"} => r.recs[i].cents <= T.wlmaxc

StepChecks(St, o, r) ==
  [stepmax |-> StepMaxStep(r), limits |-> LimitsStep(St, r), conserved |-> ConservedStep(St, o, r), removekeeps |-> RemoveKeepsStep(St, o, r),
   hist |-> HistStep(St, o, r), plan |-> PlanStep(St, o, r), reject |-> RejectStep(St, o, r)]

AllTrue == [stepmax |-> TRUE, limits |-> TRUE, conserved |-> TRUE, removekeeps |-> TRUE, hist |-> TRUE, plan |-> TRUE, reject |-> TRUE]

(***************************************************************************)
InitVols == {<< <<4, 0, 2, 0>>, <<6, 4>> >>, << <<0, 0, 0, 0>>, <<8, 1>> >>, << <<6, 2, 0, 4>>, <<2, 6>> >>}

InitState(v) ==
  [vol  |-> v,
   comp |-> << InitComp("P", T.lw[P].g, v[P], [i \in 1..4 |-> [h |-> FALSE, l |-> ""]]),
               InitComp("Q", T.lw[Q].g, v[Q], [i \in 1..2 |-> [h |-> FALSE, l |-> ""]]) >>,
   hist |-> << InitHist(v[P]), InitHist(v[Q]) >>]

Init == /\ cfg = [wlmax |-> WlMax, autosplit |-> AutoSplit, diti |-> FALSE] /\ lim = Lim0
        /\ \E v \in InitVols : S = InitState(v) /\ S0 = InitState(v)
        /\ wl = <<>> /\ out = "ok" /\ allok = TRUE /\ prevok = TRUE /\ tracked = TRUE /\ nodisp = TRUE /\ chk = AllTrue /\ depth = 0

\* one operation of the alphabet, tried in the current state (it may be rejected)
Do(o) == LET r == Apply(S, o) IN
         /\ S' = r.S
         /\ wl' = wl \o r.recs
         /\ out' = r.out
         /\ allok' = (allok /\ r.out = "ok")
         /\ prevok' = allok
         /\ tracked' = (tracked /\ o.op \notin {"add", "remove"})
         /\ nodisp' = (nodisp /\ o.op \notin {"add", "dispense"})
         \* the history statement (C11) is about successful operations on histories of successful operations:
         \* after a partially applied failure the newest entry may lag behind the volumes (see DESIGN section 6)
         /\ chk' = [StepChecks(S, o, r) EXCEPT !.hist = (allok => @)]
         /\ depth' = depth + 1
         /\ UNCHANGED <<S0, cfg, lim>>

\* the caller assigns max_volume / auto_split: no record, no change of any labware
SetCfg(c) == /\ c # cfg /\ cfg' = c
             /\ out' = "ok" /\ prevok' = allok /\ chk' = AllTrue /\ depth' = depth + 1
             /\ UNCHANGED <<S, wl, allok, tracked, nodisp, S0, lim>>
SetLim(lm) == /\ lm # lim /\ lim' = lm
             /\ out' = "ok" /\ prevok' = allok /\ chk' = AllTrue /\ depth' = depth + 1
             /\ UNCHANGED <<S, wl, allok, tracked, nodisp, S0, cfg>>

Next == depth < MaxDepth /\ ((\E o \in Ops : Do(o)) \/ (\E c \in Cfgs : SetCfg(c)) \/ (\E lm \in Lims : SetLim(lm)))

(***************************************************************************)
(* Invariants                                                              *)
(***************************************************************************)
\* the robot's diluter is as large as the largest configuration in use; that every step respects the configuration
\* current when it was emitted is the step check chk.stepmax
\* ... and its limits are the loosest ones in use (that every step respects the limits current at its call is chk.limits)
Robot == Run([T EXCEPT !.wlmax = MaxWlMax, !.wlmaxc = MaxWlMax * 100, !.lw[1].minv = Lim0[1][1], !.lw[1].maxv = Lim0[1][2],
                       !.lw[2].minv = Lim0[2][1], !.lw[2].maxv = Lim0[2][2]], S0.vol, S0.comp, wl)

\* C01: as long as every operation was a worklist operation that succeeded, the robot executing the worklist reproduces the twin
InvTwinEqualsRobot == (allok /\ tracked) =>
                               /\ Robot.err = ""
                               /\ Robot.vol = S.vol
                               \* the robot cannot know what a stand-alone dispense declares as composition
                               /\ (nodisp /\ ~Robot.unknown) => Robot.comp = S.comp
\* C05 on supports: which components are present in a non-empty cavity is exactly what the records moved there
InvSupport == (allok /\ tracked /\ nodisp) =>
                 LET rs == RunSup(T, S0.vol, [k \in {P, Q} |-> [i \in 1..Len(S0.comp[k]) |-> CNames(S0.comp[k][i])]], wl) IN
                 \A k \in {P, Q} : \A i \in 1..Len(S.vol[k]) : S.vol[k][i] > 0 => CNames(S.comp[k][i]) = rs.sup[k][i]
\* C03: up to and including the first rejected operation (however it aborted), replaying the
\* worklist accumulated so far stays within all limits
InvReplayWithinLimits == (prevok /\ tracked) => Robot.err = ""
InvStepMax == chk.stepmax /\ \A i \in 1..Len(wl) : wl[i].t \in {"A", "D"} => wl[i].cents <= MaxWlMax * 100
\* C02
\* (with the loosest limits; the step check InvLimitsStep uses the limits current at each call)
InvBounds == \A k \in {P, Q} : VolumesWithinLimits([T.lw[k] EXCEPT !.minv = Lim0[k][1], !.maxv = Lim0[k][2]], S.vol[k])
InvLimitsStep == chk.limits
\* C05
InvCompSane == \A k \in {P, Q} : CompSane(S.vol[k], S.comp[k])
InvCompNormalised == (Family \notin {"labware", "all"}) => \A k \in {P, Q} : CompNormalisedAll(S.vol[k], S.comp[k])
InvConserved == chk.conserved
InvRemoveKeeps == chk.removekeeps
\* C11
InvHist == chk.hist
\* C06 / C07 / C04: the reference plan satisfies the contract
InvPlan == chk.plan
InvReject == chk.reject

\* keep TLC's 32 bit arithmetic honest: composition denominators stay small
InvSmallDenominators == \A k \in {P, Q} : \A i \in 1..Len(S.comp[k]) : \A t \in S.comp[k][i] : t[3] < 100000
=============================================================================
