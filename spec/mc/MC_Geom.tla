------------------------------- MODULE MC_Geom -------------------------------
(***************************************************************************)
(* C08 on the model: for every plate geometry rows 1..MaxR x cols 1..MaxC  *)
(* and every trough geometry virtual rows 1..MaxV x cols 1..MaxTC the      *)
(* numbering operators are bijections and address the right cavity.        *)
(* Each geometry is one initial state; the lemmas are state invariants.    *)
(***************************************************************************)
EXTENDS RTGeom
CONSTANTS MaxR, MaxC, MaxV, MaxTC
VARIABLE g

Geoms == {PlateGeom(R, C) : R \in 1..MaxR, C \in 1..MaxC}
           \cup {TroughGeom(V, C) : V \in 1..MaxV, C \in 1..MaxTC}

Init == g \in Geoms
Next == UNCHANGED g

InvEvoBijective   == EvoBijective(g)
InvFluentOnReal   == FluentBijectiveOnReal(g)
InvAddressesCavity == PosAddressesRealWell(g)
InvRoundTrip      == RealIdxRoundTrip(g)
\* plates are numbered identically on both devices; troughs differ exactly by the virtual rows
InvDeviceDifference ==
  \A w \in IdWells(g) :
     /\ g.vrows = 0 => EvoPos(g, w) = FluentPos(g, w)
     /\ g.vrows > 0 => EvoPos(g, w) = (FluentPos(g, w) - 1) * g.vrows + w[1] + 1
\* identifier strings are pairwise distinct
InvIdsDistinct == Cardinality({WellId(w) : w \in IdWells(g)}) = NIds(g)
=============================================================================
