------------------------------ MODULE MC_TwinGen ------------------------------
(***************************************************************************)
(* Behaviour generation for conformance (direction specification -> code). *)
(* The model MC_Twin is extended by a history variable holding the         *)
(* operations taken and what the model says about each (outcome, volumes   *)
(* afterwards).  Every behaviour of length MaxDepth -- including those     *)
(* that contain rejected operations -- is collected and written as JSON to *)
(* OUT_FILE; the harness replays them on the real implementation and the   *)
(* trace specification judges the result, including agreement with the     *)
(* model's own outcome (clause C04.model).  Needs -workers 1.              *)
(***************************************************************************)
EXTENDS MC_Twin, Json, IOUtils, TLCExt

\* see MC_Twin!FieldOrderPin: this module is the root when behaviours are generated, so the order is pinned here too
GenFieldOrderPin == [k |-> 0, x |-> 0]

VARIABLE ops
gvars == <<S, wl, out, allok, prevok, tracked, nodisp, S0, chk, depth, cfg, lim, ops>>

GInit == Init /\ ops = <<>> /\ TLCSet(7, <<>>)
GNext == /\ depth < MaxDepth
         /\ \/ \E o \in Ops : Do(o) /\ ops' = Append(ops, [op |-> o, out |-> out', vol |-> S'.vol])
            \/ \E c \in Cfgs : SetCfg(c) /\ ops' = Append(ops, [op |-> [op |-> "setconfig", maxv |-> c.wlmax, autosplit |-> c.autosplit, diti |-> c.diti],
                                                                 out |-> "ok", vol |-> S.vol])
            \/ \E lm \in Lims : SetLim(lm) /\ ops' = Append(ops, [op |-> [op |-> "setlimits", lims |-> lm], out |-> "ok", vol |-> S.vol])

\* collect every maximal behaviour once (evaluated as a state constraint: TRUE for all states)
Collect == IF depth = MaxDepth THEN TLCSet(7, Append(TLCGet(7), [init |-> S0.vol, ops |-> ops])) ELSE TRUE
Emit == JsonSerialize(IOEnv.OUT_FILE, [behaviours |-> TLCGet(7), dev |-> Dev, wlmax |-> WlMax, autosplit |-> AutoSplit])
=============================================================================
