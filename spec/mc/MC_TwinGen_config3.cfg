CONSTANTS Dev = "evo" WlMax = 2 AutoSplit = TRUE MaxDepth = 3 Family = "config"
INIT GInit
NEXT GNext
CONSTRAINT Collect
POSTCONDITION Emit
CHECK_DEADLOCK FALSE
