CONSTANTS MaxR = 26 MaxC = 30 MaxV = 26 MaxTC = 24
INIT Init
NEXT Next
INVARIANT InvEvoBijective
INVARIANT InvFluentOnReal
INVARIANT InvAddressesCavity
INVARIANT InvRoundTrip
INVARIANT InvDeviceDifference
INVARIANT InvIdsDistinct
CHECK_DEADLOCK FALSE
