------------------------------ MODULE MC_Select ------------------------------
(***************************************************************************)
(* C12 on the model: for every geometry with at most MaxWells wells and    *)
(* every subset of wells, decoding the encoded selection returns the       *)
(* selection and the dimensions; distinct selections give distinct strings.*)
(* One state per (R, C, selection).                                        *)
(***************************************************************************)
EXTENDS RTSelect
CONSTANTS MaxWells
VARIABLES R, C, sel

InitFast == /\ R \in 1..MaxWells /\ C \in 1..MaxWells /\ R * C <= MaxWells
            /\ sel \in SUBSET {<<r, c>> : r \in 0..(R - 1), c \in 0..(C - 1)}
Next == UNCHANGED <<R, C, sel>>

S == Encode(R, C, sel)
InvFaithful == Faithful(R, C, sel, S)
InvLength == Len(S) = 4 + CeilDiv(R * C, 7)
\* flipping any single well changes the string (injectivity, pointwise)
InvInjective == \A w \in {<<r, c>> : r \in 0..(R - 1), c \in 0..(C - 1)} :
                   Encode(R, C, IF w \in sel THEN sel \ {w} ELSE sel \cup {w}) # S
=============================================================================
