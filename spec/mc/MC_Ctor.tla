------------------------------- MODULE MC_Ctor -------------------------------
(***************************************************************************)
(* C20 on the model: over abstract constructor specifications (sizes from  *)
(* Sizes incl. 0, 27 and non-integers; limits incl. NaN / None; volume     *)
(* classes incl. negative, NaN, above max) the contract is coherent:       *)
(* every valid specification has a reference object that is Consistent     *)
(* and laid out as given, and every listed kind of unrepresentable         *)
(* specification is invalid.  One state per specification.                 *)
(***************************************************************************)
EXTENDS RTLabware
CONSTANTS Sizes
VARIABLES kind, r, cc, vr, mn, mx, ii

Sz == {[cls |-> "int", v |-> n] : n \in Sizes} \cup {[cls |-> "float", v |-> 2]}
Lim == {[cls |-> "num", v |-> 0], [cls |-> "num", v |-> 5], [cls |-> "nan", v |-> 0], [cls |-> "none", v |-> 0], [cls |-> "num", v |-> -1]}
VR == {[given |-> FALSE, cls |-> "int", v |-> 0]} \cup {[given |-> TRUE, cls |-> s.cls, v |-> s.v] : s \in Sz}

InitsSeq(n, cols) ==
  <<[form |-> "none", vals |-> <<>>, nan |-> <<>>, ncols |-> 0],
    [form |-> "scalar", vals |-> <<3>>, nan |-> <<FALSE>>, ncols |-> 0],
    [form |-> "scalar", vals |-> <<6>>, nan |-> <<FALSE>>, ncols |-> 0],
    [form |-> "scalar", vals |-> <<-1>>, nan |-> <<FALSE>>, ncols |-> 0],
    [form |-> "scalar", vals |-> <<0>>, nan |-> <<TRUE>>, ncols |-> 0],
    [form |-> "percol", vals |-> [k \in 1..cols |-> k % 3], nan |-> [k \in 1..cols |-> FALSE], ncols |-> 0],
    [form |-> "flat", vals |-> [k \in 1..n |-> k % 4], nan |-> [k \in 1..n |-> FALSE], ncols |-> 0],
    [form |-> "flat", vals |-> [k \in 1..(n + 1) |-> 1], nan |-> [k \in 1..(n + 1) |-> FALSE], ncols |-> 0],
    [form |-> "2d", vals |-> [k \in 1..n |-> (k * 3) % 5], nan |-> [k \in 1..n |-> FALSE], ncols |-> cols]>>

NoNames == [given |-> FALSE, wells |-> <<>>, list |-> <<>>, isstr |-> FALSE, str |-> ""]
N2(a, b) == IF a.cls = "int" /\ b.cls = "int" THEN a.v * b.v ELSE 2
C2(b) == IF b.cls = "int" THEN b.v ELSE 1

c == IF kind = "labware"
     THEN [kind |-> "labware", name |-> "L", rows |-> r, cols |-> cc, vrows |-> vr, minv |-> mn, maxv |-> mx,
           init |-> InitsSeq(N2(r, cc), C2(cc))[ii], names |-> NoNames]
     ELSE [kind |-> "trough", name |-> "L", rows |-> [cls |-> "int", v |-> 1], cols |-> cc,
           vrows |-> [given |-> TRUE, cls |-> r.cls, v |-> r.v], minv |-> mn, maxv |-> mx,
           init |-> InitsSeq(C2(cc), C2(cc))[ii], names |-> NoNames]

Init == /\ kind \in {"labware", "trough"}
        /\ r \in Sz /\ cc \in Sz /\ mn \in {l \in Lim : l.v # 5} /\ mx \in Lim
        /\ vr \in (IF kind = "labware" THEN VR ELSE {[given |-> FALSE, cls |-> "int", v |-> 0]})
        /\ ii \in (IF kind = "labware" THEN 1..9 ELSE 1..6)
Next == UNCHANGED <<kind, r, cc, vr, mn, mx, ii>>

\* the object a correct constructor builds for a valid specification
RefObs ==
  LET g == CtorGeom(c)  v == InitFlat(c, g)  names == GivenNames(c, g) IN
  [wells |-> IdArray(g), shape |-> <<IdRows(g), g.cols>>, nidx |-> NIds(g),
   idx |-> [k \in 1..NIds(g) |-> RealRC(g, <<(k - 1) \div g.cols, (k - 1) % g.cols>>)],
   volshape |-> <<g.rows, g.cols>>, finite |-> TRUE, minv |-> c.minv.v, maxv |-> c.maxv.v, vol |-> v,
   hn |-> 1, last |-> [h |-> TRUE, l |-> "initial", s |-> v], trough |-> g.vrows > 0,
   comp |-> [k \in 1..NReal(g) |-> IF v[k] > 0 THEN << <<IF names[k].h THEN names[k].l ELSE DefaultName(c.name, g, k), 1, 1>> >> ELSE <<>>]]

InvValidIsConsistent == ValidSpec(c) => Consistent(c, RefObs)
\* each unrepresentable kind of specification is invalid
InvRejectsSizes == (c.kind = "labware" /\ (c.rows.cls # "int" \/ c.rows.v < 1 \/ c.rows.v > 26 \/ c.cols.cls # "int" \/ c.cols.v < 1)) => ~ValidSpec(c)
InvRejectsVirtual == (c.kind = "labware" /\ c.vrows.given /\ (c.vrows.cls # "int" \/ c.vrows.v < 1 \/ c.vrows.v > 26 \/ c.rows.v # 1)) => ~ValidSpec(c)
InvRejectsTroughSizes == (c.kind = "trough" /\ (c.vrows.cls # "int" \/ c.vrows.v < 1 \/ c.vrows.v > 26 \/ c.cols.cls # "int" \/ c.cols.v < 1)) => ~ValidSpec(c)
InvRejectsLimits == (c.minv.cls # "num" \/ c.maxv.cls # "num" \/ c.minv.v < 0 \/ c.maxv.v <= c.minv.v) => ~ValidSpec(c)
InvRejectsVolumes == (\E k \in 1..Len(c.init.vals) : c.init.nan[k] \/ c.init.vals[k] < 0 \/ (c.maxv.cls = "num" /\ c.init.vals[k] > c.maxv.v)) => ~ValidSpec(c)
=============================================================================
