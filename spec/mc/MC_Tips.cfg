CONSTANTS MaxLen = 3
INIT Init
NEXT Next
INVARIANT InvBits
INVARIANT InvSingle
INVARIANT InvAny
INVARIANT InvRange
INVARIANT InvInvalid
CHECK_DEADLOCK FALSE
