---------------------------- MODULE MC_Partition ----------------------------
(***************************************************************************)
(* C18 on the model: for every list of up to MaxLen triples over a small   *)
(* well set the reference partition satisfies the contract IsPartition,    *)
(* and the automatic choice of the partitioning side follows the rule.     *)
(* C07 (independence): the flow bag of the reference plan is invariant     *)
(* under every permutation of the triples and under the partition mode.    *)
(***************************************************************************)
EXTENDS RTPlan
CONSTANTS MaxLen, Vols, M, NW
WellSet == IF NW = 3 THEN {<<0, 0>>, <<1, 0>>, <<0, 1>>} ELSE {<<0, 0>>, <<1, 0>>, <<0, 1>>, <<1, 1>>}
VARIABLES x, side

Triples == {[s |-> s, d |-> d, v |-> v] : s \in WellSet, d \in WellSet, v \in Vols}
Init == /\ x \in UNION {[1..n -> Triples] : n \in 0..MaxLen}
        /\ side \in {"source", "destination"}
Next == UNCHANGED <<x, side>>

InvPartition == IsPartition(x, side, RefPartition(x, side))
InvPlanContract == PlanOK(x, side, M, RefPlan(x, side, M, 1, TRUE))
\* flows do not depend on the mode
InvModeIndependent ==
  LET p1 == RefPlan(x, "source", M, 1, TRUE)  p2 == RefPlan(x, "destination", M, 1, TRUE) IN
  \A i \in 1..Len(x) : PlanFlow(p1, x[i].s, x[i].d) = PlanFlow(p2, x[i].s, x[i].d)
\* nor on the order in which the triples are listed (checked for the reversal and the rotation,
\* which generate all permutations)
Rev(q) == [i \in 1..Len(q) |-> q[Len(q) + 1 - i]]
Rot(q) == IF q = <<>> THEN q ELSE Tail(q) \o <<Head(q)>>
InvOrderIndependent ==
  \A y \in {Rev(x), Rot(x)} :
     LET p1 == RefPlan(x, side, M, 1, TRUE)  p2 == RefPlan(y, side, M, 1, TRUE) IN
     \A i \in 1..Len(x) : /\ PlanFlow(p1, x[i].s, x[i].d) = PlanFlow(p2, x[i].s, x[i].d)
                          /\ PlanCount(p1, x[i].s, x[i].d) = PlanCount(p2, x[i].s, x[i].d)
InvAutoSide ==
  \A st, dt \in BOOLEAN :
     /\ AutoSide(st, dt, "auto") = (IF st /\ ~dt THEN "destination" ELSE "source")
     /\ AutoSide(st, dt, "source") = "source" /\ AutoSide(st, dt, "destination") = "destination"
=============================================================================
