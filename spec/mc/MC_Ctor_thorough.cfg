CONSTANTS Sizes = {0, 1, 2, 3, 26, 27}
INIT Init
NEXT Next
INVARIANT InvValidIsConsistent
INVARIANT InvRejectsSizes
INVARIANT InvRejectsVirtual
INVARIANT InvRejectsTroughSizes
INVARIANT InvRejectsLimits
INVARIANT InvRejectsVolumes
CHECK_DEADLOCK FALSE
