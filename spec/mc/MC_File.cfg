CONSTANTS MaxRecs = 3 MaxLen = 2
INIT Init
NEXT Next
INVARIANT InvContent
INVARIANT InvRoundTrip
INVARIANT InvNoTrailingBreak
INVARIANT InvLatin1
INVARIANT InvLemmas
CHECK_DEADLOCK FALSE
