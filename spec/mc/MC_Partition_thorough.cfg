CONSTANTS MaxLen = 3
          Vols = {1, 5}
          M = 2
          NW = 4
INIT Init
NEXT Next
INVARIANT InvPartition
INVARIANT InvPlanContract
INVARIANT InvModeIndependent
INVARIANT InvOrderIndependent
INVARIANT InvAutoSide
CHECK_DEADLOCK FALSE
