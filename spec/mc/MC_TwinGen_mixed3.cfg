CONSTANTS Dev = "evo" WlMax = 2 AutoSplit = TRUE MaxDepth = 3 Family = "mixed"
INIT GInit
NEXT GNext
CONSTRAINT Collect
POSTCONDITION Emit
CHECK_DEADLOCK FALSE
