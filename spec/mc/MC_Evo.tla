------------------------------- MODULE MC_Evo -------------------------------
(***************************************************************************)
(* C13 / C10 on the model.  A plate (4 rows x 2 columns) and a trough      *)
(* (4 virtual rows x 1 column); every list of up to MaxLen wells (any      *)
(* order, repeats, two columns), every list of tips over 1..4 of the same  *)
(* length and distinct per-tip volumes.  The reference command has the     *)
(* mask of the distinct tips, volume slot i for tip i and the bitmap of    *)
(* the wells.  Lemma: the robot executing the command changes the wells    *)
(* exactly as the tracking does iff the call is expressible (one column,   *)
(* no duplicates, order preserving assignment) -- or the volumes happen to *)
(* be such that the difference does not show.  One state per call.         *)
(***************************************************************************)
EXTENDS RTWorklist
CONSTANTS MaxLen
VARIABLES k, ws, tn, isAsp

T == [dev |-> "evo", unitc |-> 100, k |-> 1, wlmax |-> 50, wlmaxc |-> 5000, autosplit |-> TRUE, diti |-> FALSE,
      lw |-> << [name |-> "P", g |-> PlateGeom(4, 2), minv |-> 0, maxv |-> 100, grid |-> 11, site |-> 0],
                [name |-> "Q", g |-> TroughGeom(4, 1), minv |-> 0, maxv |-> 400, grid |-> 12, site |-> 1] >>]
Vol0 == << <<40, 40, 40, 40, 40, 40, 40, 40>>, <<200>> >>
Comp0 == << [i \in 1..8 |-> {}], <<{}>> >>

Wells(kk) == IdWells(T.lw[kk].g)
SeqN(S, n) == [1..n -> S]

Init == /\ k \in {1, 2} /\ isAsp \in BOOLEAN
        /\ \E n \in 1..MaxLen : ws \in SeqN(Wells(k), n) /\ tn \in SeqN(1..4, n)
Next == UNCHANGED <<k, ws, tn, isAsp>>

n == Len(ws)
vs == [i \in 1..n |-> i]                       \* distinct volumes 1, 2, 3 so that every mis-pairing shows
g == T.lw[k].g
OneCol == \A i \in 1..n : ws[i][2] = ws[1][2]
Distinct == Cardinality(Range(ws)) = n /\ Cardinality(Range(tn)) = n
Isomorphic == \A i, j \in 1..n : (tn[i] < tn[j]) <=> (ws[i][1] < ws[j][1])
Expressible == OneCol /\ Distinct /\ Isomorphic

Cmd == [t |-> IF isAsp THEN "BA" ELSE "BD", mask |-> MaskOfSet(Range(tn)), lc |-> "W",
        vols |-> [s \in 1..8 |-> IF \E i \in 1..n : tn[i] = s
                                 THEN vs[CHOOSE i \in 1..n : tn[i] = s] * T.unitc ELSE 0],
        grid |-> T.lw[k].grid, site |-> T.lw[k].site, sel |-> Encode(IdRows(g), g.cols, Range(ws)), arm |-> 0]

Tracked == IF isAsp THEN RemoveRun(T.lw[k], Vol0[k], ws, vs, 1).vol
           ELSE AddRun(T.lw[k], Vol0[k], Comp0[k], ws, vs, Unknown(n), 1).vol
Robot == Run(T, Vol0, Comp0, <<Cmd>>)

\* C13: an expressible call is reproduced exactly by the command
InvExpressibleAgrees == Expressible => Robot.err = "" /\ Robot.vol[k] = Tracked
\* and a call that is not expressible cannot be (on a plate: the robot's result differs from the tracking)
InvInexpressibleDiffers == (~Expressible /\ k = 1 /\ OneCol) => (Robot.err # "" \/ Robot.vol[k] # Tracked)
\* C10: the mask is the OR of the distinct tips
InvMask == MaskBits(Cmd.mask, Range(tn))
=============================================================================
