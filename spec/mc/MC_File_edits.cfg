CONSTANTS MaxRecs = 2 MaxLen = 2 Edits = TRUE
INIT Init
NEXT Next
INVARIANT InvContent
INVARIANT InvRoundTrip
INVARIANT InvNoTrailingBreak
INVARIANT InvLatin1
INVARIANT InvLemmas
INVARIANT InvEdits
CHECK_DEADLOCK FALSE
