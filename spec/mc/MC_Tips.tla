------------------------------- MODULE MC_Tips -------------------------------
(***************************************************************************)
(* C10 on the model: every sequence of up to MaxLen tip symbols (numbers   *)
(* 1..8, Tip members T1..T8) and single symbols incl. Any and invalid      *)
(* ones.  One state per tip argument.                                      *)
(***************************************************************************)
EXTENDS RTTips, Sequences
CONSTANTS MaxLen
VARIABLE a

Good == {[k |-> kk, v |-> n] : kk \in {"int", "tip"}, n \in 1..8}
Bad  == {[k |-> "int", v |-> 0], [k |-> "int", v |-> 9], [k |-> "any", v |-> 0], [k |-> "bad", v |-> 0]}
Syms == Good \cup Bad
SeqsUpTo(S, n) == UNION {[1..m -> S] : m \in 1..n}

Init == a \in {[k |-> "one", s |-> s, x |-> <<>>] : s \in Syms}
              \cup {[k |-> "coll", s |-> [k |-> "any", v |-> 0], x |-> x] : x \in SeqsUpTo(Good, MaxLen)}
              \cup {[k |-> "coll", s |-> [k |-> "any", v |-> 0], x |-> x] : x \in SeqsUpTo(Syms, 2)}
Next == UNCHANGED a

Nums == {a.x[i].v : i \in 1..Len(a.x)}
\* the mask of a valid collection has exactly the bits of its members: order, repetition and representation do not matter
InvBits == (a.k = "coll" /\ TipArgValid(a)) => MaskBits(TipArgMask(a), Nums)
InvSingle == (a.k = "one" /\ SymValid(a.s)) => TipArgMask(a) = Pow2(a.s.v - 1)
InvAny == (a.k = "one" /\ a.s.k = "any") => TipArgValid(a) /\ TipArgMask(a) = -1
InvRange == TipArgValid(a) => (TipArgMask(a) = -1 \/ (TipArgMask(a) >= 1 /\ TipArgMask(a) <= 255))
InvInvalid == (a.k = "coll" /\ \E i \in 1..Len(a.x) : a.x[i] \in Bad) => ~TipArgValid(a)
=============================================================================
