CONSTANTS MaxWells = 11
INIT InitFast
NEXT Next
INVARIANT InvFaithful
INVARIANT InvLength
INVARIANT InvInjective
CHECK_DEADLOCK FALSE
