CONSTANTS Texts = {"", "a", "a;b"}
INIT Init
NEXT Next
INVARIANT InvRoundTrip
INVARIANT InvSeparatorBreaksGrammar
INVARIANT InvLongLabelNotWellFormed
INVARIANT InvVolumeFormat
CHECK_DEADLOCK FALSE
