------------------------------ MODULE MC_Records ------------------------------
(***************************************************************************)
(* C09 on the model: for aspirate/dispense records built from abstract     *)
(* argument tuples (text fields over a small set of strings including a    *)
(* separator and a 33 character string, volumes and positions over         *)
(* classes) rendering followed by an independent split at ';' returns      *)
(* exactly the given fields iff the arguments are valid; an argument       *)
(* containing a separator changes the field count, which is why such       *)
(* calls must be rejected.  One state per argument tuple.                  *)
(***************************************************************************)
EXTENDS RTText
CONSTANTS Texts
VARIABLES t, rack, rackid, racktype, tube, lc, frt, pos, cents, tip

Long33 == "abcdefghijklmnopqrstuvwxyz0123456"

Init == /\ t \in {"A", "D"}
        /\ rack \in Texts \cup {Long33} /\ rackid \in Texts /\ racktype \in Texts /\ tube \in Texts
        /\ lc \in Texts /\ frt \in {"", "x"}
        /\ pos \in {1, 96} /\ cents \in {0, 5, 66700, 715827800} /\ tip \in {-1, 1, 255}
Next == UNCHANGED <<t, rack, rackid, racktype, tube, lc, frt, pos, cents, tip>>

R == [t |-> t, rack |-> rack, rackid |-> rackid, racktype |-> racktype, pos |-> pos, tube |-> tube, cents |-> cents,
      lc |-> lc, tiptype |-> "", tip |-> tip, frt |-> frt]
Raw == RenderAD(R)

\* an independent field splitter
RECURSIVE Split(_, _, _)
Split(s, i, cur) == IF i > Len(s) THEN <<cur>>
                    ELSE IF SubSeq(s, i, i) = ";" THEN <<cur>> \o Split(s, i + 1, "")
                    ELSE Split(s, i + 1, cur \o SubSeq(s, i, i))
Fields == Split(Raw, 1, "")

ArgsValid == /\ ~HasChar(rack, ";") /\ Len(rack) <= MaxTextLen
             /\ ~HasChar(rackid, ";") /\ ~HasChar(racktype, ";") /\ ~HasChar(tube, ";") /\ ~HasChar(lc, ";")

InvRoundTrip == ArgsValid =>
  /\ Len(Fields) = 11
  /\ Fields = <<t, rack, rackid, racktype, ToString(pos), tube, Vol2(cents), lc, "", TipStr(tip), frt>>
  /\ WellFormed([R EXCEPT !.t = t] @@ [raw |-> Raw])
InvSeparatorBreaksGrammar ==
  (HasChar(rack, ";") \/ HasChar(rackid, ";") \/ HasChar(racktype, ";") \/ HasChar(tube, ";") \/ HasChar(lc, ";"))
     => Len(Fields) # 11 /\ ~WellFormed(R @@ [raw |-> Raw])
InvLongLabelNotWellFormed == Len(rack) > MaxTextLen => ~WellFormed(R @@ [raw |-> Raw])
InvVolumeFormat == Vol2(66700) = "667.00" /\ Vol2(5) = "0.05" /\ Vol2(0) = "0.00" /\ Vol2(715827800) = "7158278.00"
=============================================================================
