---------------------------- MODULE MC_Transform ----------------------------
(***************************************************************************)
(* C15 on the model: rotation and shift lemmas for every shape up to       *)
(* MaxR x MaxC (one state per shape).                                      *)
(***************************************************************************)
EXTENDS RTTransform
CONSTANTS MaxR, MaxC
VARIABLE sh

Init == sh \in {<<R, C>> : R \in 1..MaxR, C \in 1..MaxC}
Next == UNCHANGED sh

InvRotInverse   == RotInverse(sh)
InvRotFour      == RotFourTimes(sh)
InvRotBijective == RotBijective(sh) /\ {RotCCW(sh, w) : w \in ShapeWells(sh)} = ShapeWells(Swap(sh))
\* shifting into every larger plate at every anchor: inverse, inside, and refused iff it does not fit
InvShift ==
  \A RB \in 1..(MaxR + 1), CB \in 1..(MaxC + 1) :
     \A anchor \in ShapeWells(<<RB, CB>>) :
        /\ ShiftInverse(sh, <<RB, CB>>, anchor)
        /\ ShiftFits(sh, <<RB, CB>>, anchor) <=> \A w \in ShapeWells(sh) : InShape(<<RB, CB>>, Shift(anchor, w))
\* a clockwise rotation moves the top-left corner to the top-right and keeps the centre symmetry
InvRotCorners == RotCW(sh, <<0, 0>>) = <<0, sh[1] - 1>> /\ RotCCW(sh, <<0, 0>>) = <<sh[2] - 1, 0>>
=============================================================================
