------------------------------ MODULE MC_Trough ------------------------------
(***************************************************************************)
(* C19 on the model: lemmas about TroughWells for every n <= MaxN and      *)
(* every number of available wells <= MaxL.  One state per (n, len).       *)
(***************************************************************************)
EXTENDS RTTransform
CONSTANTS MaxN, MaxL
VARIABLES n, len

Ws(l) == [k \in 1..l |-> WellId(<<k - 1, 0>>)]

Init == n \in 0..MaxN /\ len \in 1..MaxL
Next == UNCHANGED <<n, len>>

Res == TroughWells(n, Ws(len))

InvLength   == Len(Res) = n
\* consecutive blocks of len reuse the wells in the same order
InvCycles   == \A k \in 1..n : Res[k] = Ws(len)[((k - 1) % len) + 1]
InvPeriodic == \A k \in 1..n : k + len <= n => Res[k + len] = Res[k]
\* at most len distinct wells are ever used, and any len consecutive entries are pairwise distinct
InvAtMostLen == Cardinality(Range(Res)) <= len
InvBlockDistinct == \A k \in 1..n : k + len - 1 <= n =>
                       Cardinality({Res[j] : j \in k..(k + len - 1)}) = len
\* 2-D trough.wells input: column-major flattening of an R x 1 array is the column itself
InvFlatten2D == FlattenF([k |-> "m", x |-> [r \in 1..len |-> <<Ws(len)[r]>>]]) = Ws(len)
=============================================================================
