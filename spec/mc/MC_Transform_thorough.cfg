CONSTANTS MaxR = 8 MaxC = 12
INIT Init
NEXT Next
INVARIANT InvRotInverse
INVARIANT InvRotFour
INVARIANT InvRotBijective
INVARIANT InvShift
INVARIANT InvRotCorners
CHECK_DEADLOCK FALSE
