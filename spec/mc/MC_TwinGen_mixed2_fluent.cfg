CONSTANTS Dev = "fluent" WlMax = 2 AutoSplit = TRUE MaxDepth = 2 Family = "mixed"
INIT GInit
NEXT GNext
CONSTRAINT Collect
POSTCONDITION Emit
CHECK_DEADLOCK FALSE
