CONSTANTS MaxR = 4 MaxC = 6
INIT Init
NEXT Next
INVARIANT InvRotInverse
INVARIANT InvRotFour
INVARIANT InvRotBijective
INVARIANT InvShift
INVARIANT InvRotCorners
CHECK_DEADLOCK FALSE
