------------------------------- MODULE RTFile -------------------------------
(***************************************************************************)
(* Saving a worklist (C17).  Text is handled as sequences of code points;  *)
(* Latin-1 encodes every code point below 256 as the byte of that value.   *)
(***************************************************************************)
EXTENDS RTNum

CR == 13
LF == 10
CRLF == <<CR, LF>>

RECURSIVE JoinWith(_, _, _)
JoinWith(lines, sep, i) ==
  IF i > Len(lines) THEN <<>>
  ELSE IF i = Len(lines) THEN lines[i]
  ELSE lines[i] \o sep \o JoinWith(lines, sep, i + 1)

Latin1OK(cps) == \A i \in 1..Len(cps) : cps[i] >= 0 /\ cps[i] < 256

\* the bytes save() must write for the record list (code points per record)
FileBytes(lines) == JoinWith(lines, CRLF, 1)
\* str(worklist)
StrCodes(lines) == JoinWith(lines, <<LF>>, 1)

\* splitting file content at CRLF
RECURSIVE SplitCRLF(_, _, _)
SplitCRLF(bytes, i, cur) ==
  IF i > Len(bytes) THEN <<cur>>
  ELSE IF i < Len(bytes) /\ bytes[i] = CR /\ bytes[i + 1] = LF THEN <<cur>> \o SplitCRLF(bytes, i + 2, <<>>)
  ELSE SplitCRLF(bytes, i + 1, Append(cur, bytes[i]))

\* A worklist is a list of records and the caller may edit it like one (indices as in Python: a.i, a.j count from 0)
EditList(w, a) ==
  LET n == Len(w) IN
  CASE a.kind = "pop" -> SubSeq(w, 1, n - 1)
    [] a.kind = "pop0" -> SubSeq(w, 2, n)
    [] a.kind = "reverse" -> [k \in 1..n |-> w[n + 1 - k]]
    [] a.kind = "insert" -> SubSeq(w, 1, a.i) \o <<a.rec>> \o SubSeq(w, a.i + 1, n)
    [] a.kind = "setitem" -> [k \in 1..n |-> IF k = a.i + 1 THEN a.rec ELSE w[k]]
    [] a.kind = "delslice" -> SubSeq(w, 1, a.i) \o SubSeq(w, a.j + 1, n)
    [] OTHER -> w

NoBreaks(line) == \A i \in 1..Len(line) : line[i] # CR /\ line[i] # LF

\* lemma (MC_File): for records without line breaks, reading back returns the records
RoundTrip(lines) ==
  (lines # <<>> /\ \A i \in 1..Len(lines) : NoBreaks(lines[i])) => SplitCRLF(FileBytes(lines), 1, <<>>) = lines
NoTrailingBreak(lines) ==
  (lines # <<>> /\ lines[Len(lines)] # <<>>) =>
     LET b == FileBytes(lines) IN ~(Len(b) >= 1 /\ b[Len(b)] = LF)
=============================================================================
