"""Running TLC (and friends) and reading back what it decided."""
import json
import os
import re
import shutil
import subprocess
import tempfile
import time

from .common import SPEC

JAR = "/opt/veriftools/tla/tla2tools.jar"
DEPS = "/opt/veriftools/tla/CommunityModules-deps.jar"


class TLCFailure(Exception):
    """TLC could not evaluate the specification (machinery failure, never a verdict)."""


class TLCResult:
    def __init__(self):
        self.rc = None
        self.stdout = ""
        self.generated = 0
        self.distinct = 0
        self.depth = 0
        self.violated = []  # names of violated invariants / properties
        self.errors = []  # other "Error:" lines
        self.completed = False
        self.wall = 0.0
        self.out = None  # JSON value written by the spec to OUT_FILE
        self.coverage = {}

    @property
    def ok(self):
        return self.completed and not self.violated and not self.errors


def run_tlc(
    tla_path,
    cfg_path=None,
    env=None,
    workers=1,
    timeout=3600,
    extra=(),
    heap="4g",
    want_out=False,
    coverage=False,
    simulate=None,
    depth=None,
    deadlock=False,
):
    """Run TLC on tla_path. Scratch space is a private temp directory removed afterwards."""
    scratch = tempfile.mkdtemp(prefix="rtv_tlc_")
    res = TLCResult()
    try:
        e = dict(os.environ)
        e.pop("JAVA_TOOL_OPTIONS", None)
        if env:
            e.update({k: str(v) for k, v in env.items()})
        out_file = os.path.join(scratch, "out.json")
        e["OUT_FILE"] = out_file
        libs = os.pathsep.join([SPEC, os.path.join(SPEC, "mc"), os.path.join(SPEC, "trace")])
        cmd = [
            "java",
            "-XX:+UseParallelGC",
            f"-Xmx{heap}",
            "-Xss512m",
            f"-Djava.io.tmpdir={scratch}",  # TLC's own temporary directories go away with the scratch directory
            f"-DTLA-Library={libs}",
            "-cp",
            f"{JAR}:{DEPS}",
            "tlc2.TLC",
            "-metadir",
            os.path.join(scratch, "meta"),
            "-noGenerateSpecTE",
            "-workers",
            str(workers),
        ]
        if cfg_path:
            cmd += ["-config", cfg_path]
        if not deadlock:
            cmd += ["-deadlock"]
        if coverage:
            cmd += ["-coverage", "1"]
        if simulate:
            cmd += ["-simulate", simulate]
        if depth:
            cmd += ["-depth", str(depth)]
        cmd += list(extra)
        cmd += [tla_path]
        t0 = time.time()
        try:
            p = subprocess.run(
                cmd, env=e, cwd=scratch, capture_output=True, text=True, timeout=timeout, errors="replace"
            )
            res.rc = p.returncode
            res.stdout = p.stdout + p.stderr
        except subprocess.TimeoutExpired as ex:
            res.rc = -9
            so = ex.stdout.decode(errors="replace") if isinstance(ex.stdout, bytes) else (ex.stdout or "")
            res.stdout = so + "\nTIMEOUT"
            res.errors.append("timeout")
        res.wall = time.time() - t0
        _parse(res)
        if want_out and os.path.exists(out_file):
            with open(out_file) as f:
                res.out = json.load(f)
        return res
    finally:
        shutil.rmtree(scratch, ignore_errors=True)


_RE_STATES = re.compile(r"(\d+) states generated, (\d+) distinct states found")
_RE_DEPTH = re.compile(r"depth of the complete state graph search is (\d+)")
_RE_INV = re.compile(r"Invariant (\S+) is violated")
_RE_PROP = re.compile(r"(?:Temporal properties were violated|Action property (\S+) is violated|Postcondition (\S+) violated)")


def _parse(res):
    so = res.stdout
    for m in _RE_STATES.finditer(so):
        res.generated, res.distinct = int(m.group(1)), int(m.group(2))
    m = _RE_DEPTH.search(so)
    if m:
        res.depth = int(m.group(1))
    for m in _RE_INV.finditer(so):
        res.violated.append(m.group(1))
    for m in _RE_PROP.finditer(so):
        res.violated.append(m.group(1) or m.group(2) or "temporal")
    res.completed = "Model checking completed. No error has been found." in so or (
        "Finished in" in so and "Error:" not in so
    )
    for line in so.splitlines():
        if line.startswith("Error:") and not _RE_INV.search(line):
            res.errors.append(line.strip())
    if "is violated" in so and not res.violated:
        res.violated.append("unknown")


def sany(tla_path):
    libs = os.pathsep.join([SPEC, os.path.join(SPEC, "mc"), os.path.join(SPEC, "trace")])
    p = subprocess.run(
        ["java", f"-DTLA-Library={libs}", "-cp", f"{JAR}:{DEPS}", "tla2sany.SANY", tla_path],
        capture_output=True,
        text=True,
        cwd=os.path.dirname(tla_path),
    )
    ok = p.returncode == 0 and "Semantic errors" not in p.stdout and "***Parse Error***" not in p.stdout and "Fatal" not in p.stdout
    return ok, p.stdout + p.stderr
