import argparse
import importlib
import json
import os
import sys
import traceback

from .runner import Run


def main():
    ap = argparse.ArgumentParser(prog="check")
    ap.add_argument("property")
    ap.add_argument("--tier", default=os.environ.get("VERIF_TIER", "quick"), choices=["quick", "thorough"])
    ap.add_argument("--replay", default=None)
    a = ap.parse_args()
    os.chdir(os.path.dirname(os.path.dirname(os.path.dirname(os.path.abspath(__file__)))))
    try:
        mod = importlib.import_module(f"rtverif.props.{a.property}")
    except ModuleNotFoundError:
        print(f"unknown property {a.property}", file=sys.stderr)
        return 2
    run = Run(a.property, a.tier)
    try:
        from .common import robotools

        robotools()  # puts the tree under test first on sys.path before anything imports it
        if a.replay:
            with open(a.replay) as f:
                rp = json.load(f)
            mod.replay(run, rp)
        else:
            mod.check(run, a.tier)
    except Exception:
        traceback.print_exc()
        run.machinery_errors.append("exception in harness")
    return run.finish()


if __name__ == "__main__":
    sys.exit(main())
