"""Random worklist programs (aspirate, dispense, transfer, distribute) for the twin trace checks."""
from fractions import Fraction

from .. import gen


def worklist_program(rng, pid, dev, nops, unit=Fraction(1), maxunits=16, wlmax=None, fault=0.0, fault_last=False,
                     comps=True, big_geom=False, small=True, autosplit=True, diti=False, direct=False, flags=None,
                     weights=None, transfer_kw=None, big_factor=3, labware_kw=False, emit_prob=0.0, reconfig_prob=0.0):
    """Generate (by driving the implementation) one program. Returns the replayable program."""
    lws = gen.random_labware(rng, small=small, maxunits=maxunits, big_geom=big_geom)
    wlmax = wlmax if wlmax is not None else rng.choice([2, 3, 5, maxunits])
    fl = {"comp": comps, "norm": comps}
    fl.update(flags or {})
    hdr = gen.header(pid, dev, unit, wlmax, lws, autosplit=autosplit, diti=diti, flags=fl)
    if dev == "evo" and rng.random() < 0.1:
        hdr["wl"]["alias"] = True  # constructed through the deprecated name `robotools.Worklist`
    sess = gen.Session(hdr)
    if sess.broken:
        return sess.prog
    big = max(1, big_factor * wlmax if autosplit else wlmax)
    w = weights or {"transfer": 5, "distribute": 2, "aspirate": 1, "dispense": 1, "add": 1 if direct else 0, "remove": 1 if direct else 0}
    kinds = [k for k, n in w.items() for _ in range(n)]
    try:
        for i in range(nops):
            f = fault
            if fault_last:
                f = 1.0 if i == nops - 1 else 0.0
            if emit_prob and rng.random() < emit_prob:
                # device independent low level records between the tracked operations
                fn = rng.choice(["comment", "wash", "flush", "commit", "comment"])
                args = {"text": rng.choice(["note", "two\nlines", "", " padded "])} if fn == "comment" else (
                    {"scheme": {"cls": "int", "v": rng.randint(1, 4)}} if fn == "wash" else {})
                sess.do({"op": "emit", "fn": fn, "args": args}, {})
            if reconfig_prob and rng.random() < reconfig_prob:
                # the caller assigns the public attributes max_volume / auto_split between two operations
                cfg = {"op": "setconfig"}
                if rng.random() < 0.8:
                    wlmax = rng.choice([m for m in (1, 2, 3, 5, maxunits, 2 * maxunits) if m != wlmax])
                    cfg["maxv"] = wlmax
                if "maxv" not in cfg or rng.random() < 0.3:
                    autosplit = not autosplit
                    cfg["autosplit"] = autosplit
                big = max(1, big_factor * wlmax if autosplit else wlmax)
                sess.do(cfg, {})
            kind = rng.choice(kinds)
            if kind == "transfer":
                tk = dict(transfer_kw or {})
                kw = gen.random_kw(rng) if tk.pop("kwargs", False) and rng.random() < 0.6 else None
                op, pres = gen.op_transfer(rng, sess, big, fault=f, kw=kw, **tk)
            elif kind == "distribute":
                op, pres = gen.op_distribute(rng, sess, min(big, wlmax), fault=f)
                if op is None:
                    op, pres = gen.op_transfer(rng, sess, big, fault=f)
            else:
                op, pres = gen.op_labware(rng, sess, kind, min(big, wlmax) if kind in ("aspirate", "dispense") else big,
                                          fault=f, comps=comps, kw=gen.random_kw(rng) if labware_kw and rng.random() < 0.6 else None)
            ev = sess.do(op, pres)
            if ev["out"] != "ok" and fault_last:
                break
    finally:
        sess.close()
    return sess.prog
