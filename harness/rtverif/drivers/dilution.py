"""DilutionPlan parameter sets (C14)."""


def plan_params(r, small=None):
    small = r.random() < 0.5 if small is None else small
    R = r.choice([1, 2, 3, 4, 8, 16])
    C = r.randint(1, 24) if r.random() < 0.3 else r.randint(1, 8)
    stock = r.choice([[10, 1], [20, 1], [1, 1], [50, 1], [100, 1], [1, 2], [5, 2]])
    s = stock[0] / stock[1]
    xmax_f = r.choice([1, 1, 0.5, 0.25, 0.8])
    xmax = [int(stock[0] * xmax_f * 1000), stock[1] * 1000]
    ratio = r.choice([2, 5, 10, 100, 1000, 20, 3])
    xmin = [xmax[0], xmax[1] * ratio]
    if small:
        pool = [50, 40, 30, 25, 20, 48]
    else:
        pool = [950, 1000, 200, 50, 500, 100, 1200]
    if r.random() < 0.5:
        vmax = [r.choice(pool)]
        scalar = True
    else:
        vmax = [r.choice(pool) for _ in range(C)]
        scalar = False
    return {"x": "dilplan", "xmin": xmin, "xmax": xmax, "R": R, "C": C, "stock": stock, "mode": r.choice(["log", "linear", "log"]),
            "vmax": vmax, "scalar_vmax": scalar, "mint10": r.choice([5, 10, 20, 50, 100, 200]), "vmax_present": r.choice(["int", "int", "float", "ndarray"])}


def targeted_params():
    """The failing input of finding F-13 and its neighbours; the repository's own test parameters."""
    ps = []
    ps.append({"x": "dilplan", "xmin": [1, 100], "xmax": [1, 1], "R": 2, "C": 3, "stock": [10, 1], "mode": "linear", "vmax": [950, 50, 200],
               "scalar_vmax": False, "mint10": 50})
    ps.append({"x": "dilplan", "xmin": [1, 1000], "xmax": [30, 1], "R": 8, "C": 12, "stock": [30, 1], "mode": "log", "vmax": [1000], "scalar_vmax": True, "mint10": 200})
    ps.append({"x": "dilplan", "xmin": [3, 1000], "xmax": [30, 1], "R": 6, "C": 4, "stock": [30, 1], "mode": "log", "vmax": [1000], "scalar_vmax": True, "mint10": 200})
    ps.append({"x": "dilplan", "xmin": [1, 1], "xmax": [10, 1], "R": 1, "C": 3, "stock": [20, 1], "mode": "linear", "vmax": [10, 5, 15], "scalar_vmax": False, "mint10": 10})
    ps.append({"x": "dilplan", "xmin": [1, 10], "xmax": [10, 1], "R": 4, "C": 6, "stock": [20, 1], "mode": "log", "vmax": [50], "scalar_vmax": True, "mint10": 10})
    ps.append({"x": "dilplan", "xmin": [1, 100], "xmax": [1, 1], "R": 2, "C": 5, "stock": [10, 1], "mode": "log", "vmax": [50, 40, 30, 20, 48], "scalar_vmax": False, "mint10": 20})
    # the first column is pure stock in every row (no diluent needed there)
    ps.append({"x": "dilplan", "xmin": [2, 1], "xmax": [20, 1], "R": 1, "C": 3, "stock": [20, 1], "mode": "linear", "vmax": [50], "scalar_vmax": True, "mint10": 10})
    ps.append({"x": "dilplan", "xmin": [10, 1], "xmax": [10, 1], "R": 1, "C": 1, "stock": [10, 1], "mode": "log", "vmax": [40], "scalar_vmax": True, "mint10": 10})
    ps.append({"x": "dilplan", "xmin": [5, 1], "xmax": [50, 1], "R": 1, "C": 4, "stock": [50, 1], "mode": "log", "vmax": [48, 30, 40, 25], "scalar_vmax": False, "mint10": 20})
    # impossible requests
    ps.append({"x": "dilplan", "xmin": [1, 10**6], "xmax": [1, 1], "R": 2, "C": 2, "stock": [1, 1], "mode": "linear", "vmax": [20], "scalar_vmax": True, "mint10": 100})
    ps.append({"x": "dilplan", "xmin": [1, 10], "xmax": [2, 1], "R": 2, "C": 2, "stock": [1, 1], "mode": "log", "vmax": [50], "scalar_vmax": True, "mint10": 10})
    ps.append({"x": "dilplan", "xmin": [1, 10], "xmax": [1, 1], "R": 2, "C": 3, "stock": [1, 1], "mode": "cubic", "vmax": [50], "scalar_vmax": True, "mint10": 10})
    ps.append({"x": "dilplan", "xmin": [1, 10], "xmax": [1, 1], "R": 2, "C": 3, "stock": [1, 1], "mode": "log", "vmax": [50, 40], "scalar_vmax": False, "mint10": 10})
    return ps


def execution_programs(r, recs, n):
    """Programs that execute returned plans with to_worklist on both devices (unit = 1/20 microlitre)."""
    from fractions import Fraction

    from .. import gen

    U = 20  # units per microlitre
    good = [x for x in recs if x["out"] == "ok" and x["Robs"] == x["R"] and x["Cobs"] == x["C"]]
    # small plans first (they carry the exact concentration clause), then a seeded sample of the others
    small = [x for x in good if x["small"] and x["C"] <= 8]
    others = [x for x in good if not (x["small"] and x["C"] <= 8) and x["R"] * x["C"] <= 96]
    r.shuffle(small)
    r.shuffle(others)
    chosen = (small[: max(1, (2 * n) // 3)] + others)[:n]
    progs = []
    for i, rec in enumerate(chosen):
        p = rec["re"]
        R, C = rec["R"], rec["C"]
        vmax = rec["vmax"]
        need_stock = max(1, rec["vstock"])
        need_dil = max(1, R * sum(vmax))
        stock_cols, dil_cols = r.randint(1, 2), r.randint(1, 2)
        sc, dc = r.randrange(stock_cols), r.randrange(dil_cols)
        # every fifth stock trough holds exactly what the plan consumes (and may run empty), the others some reserve
        exact_stock = i % 5 == 2
        smax = (need_stock + (0 if exact_stock else r.randint(10, 500))) * U
        dmax = (need_dil + r.randint(10, 500)) * U
        stock = gen.mk_trough("stock", r.choice([1, 4, 8, R]), stock_cols, 0 if exact_stock else r.choice([0, 5 * U]), smax + 10 * U, [smax if c == sc else 0 for c in range(stock_cols)])
        dil = gen.mk_trough("diluent", r.choice([1, 2, 8, R]), dil_cols, 0, dmax, [dmax if c == dc else 0 for c in range(dil_cols)])
        pr, pc = R + r.choice([0, 0, 2]), C + r.choice([0, 0, 1])
        plate = gen.mk_plate("dilutions", min(pr, 26), pc, 0, (max(vmax) + r.choice([0, 50])) * U, [0] * (min(pr, 26) * pc))
        lws = [stock, dil, plate]
        if i % 4 == 1:
            # stock and diluent are two columns of ONE trough
            both = gen.mk_trough("reservoir", r.choice([1, 4, 8]), 2, 0, max(smax, dmax) + 10 * U, [smax, dmax])
            lws = [both, dil, plate]
            sc, dc = 0, 1
        op = {"op": "dilution", "params": p, "stock": 0, "stock_column": sc, "diluent": 0 if i % 4 == 1 else 1, "diluent_column": dc, "plate": 2,
              "mix_repeat": r.choice([0, 1, 2]), "mix_volume": r.choice([0.5, 0.25, 0.8, 0.8, 1.0]), "mix_wash": r.choice([2, "flush", "reuse"]),
              "roomy": True}
        if r.random() < 0.4:
            op["mix_threshold"] = r.choice([0.0, 0.05, 0.5, 1.0, 2.0])
        # what stays in every well after the planned serial transfers: an extra transfer to a destination
        # plate must fit into that (it is requested by the caller, not part of the plan's budget)
        left = min(vmax[c] - sum(it["v"][rr] for it in rec["instr"] if it["src"] == c + 1) for c in range(C) for rr in range(R))
        pure_first = R == 1 and p["xmax"][0] * p["stock"][1] == p["stock"][0] * p["xmax"][1]
        if (r.random() < 0.3 or pure_first) and left >= 1:
            vd = r.randint(1, left)
            lws.append(gen.mk_plate("assay", min(pr, 26), pc, 0, (vd + 5) * U, [0] * (min(pr, 26) * pc)))
            op["dest"] = 3
            op["v_dest"] = vd * U
        if i % 3 == 0:
            op["used_before"] = True  # the plan object was executed on other labware before
        dev = "evo" if i % 2 == 0 else "fluent"
        wlmax = r.choice([950, 1000, 200, 60]) * U
        h = gen.header(f"C14/x{i}", dev, Fraction(1, U), wlmax, lws, flags={"comp": False, "norm": False})
        h["snap"] = True   # 0.8 * vmax is not exactly representable: volumes are snapped to the 1/20 microlitre grid
        h["ops"] = [op]
        progs.append(h)
    return progs
