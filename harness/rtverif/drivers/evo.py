"""Programs of EVO script commands (evo_aspirate / evo_dispense / evo_wash) for C13 and C10."""
from fractions import Fraction

from .. import gen


def I(n):
    return {"cls": "int", "v": n}


def evo_op(r, sess, kind=None):
    """One evo_aspirate / evo_dispense with a seeded arrangement of wells, tips and volumes."""
    k = r.randrange(len(sess.prog["lw"]))
    spec = sess.prog["lw"][k]
    idrows = spec["vrows"] or spec["rows"]
    col = r.randrange(spec["cols"])
    n = r.randint(1, min(8, idrows))
    rows = sorted(r.sample(range(idrows), n))
    tips = sorted(r.sample(range(1, 9), n))
    kind = kind or r.choice(["canonical"] * 4 + ["permuted", "mismatch", "duptip", "dupwell", "twocol", "badtip", "count", "badnum"])
    name = r.choice(["evo_aspirate", "evo_dispense"])
    wells = [[rw, col] for rw in rows]
    order = list(range(n))
    if kind == "permuted" and n > 1:
        r.shuffle(order)                      # same permutation for wells, tips and volumes: still expressible
        wells = [wells[i] for i in order]
        tips = [tips[i] for i in order]
    elif kind == "mismatch" and n > 1:
        i, j = r.sample(range(n), 2)
        wells[i], wells[j] = wells[j], wells[i]   # tips ascending, wells not
    elif kind == "duptip" and n > 1:
        tips[r.randrange(1, n)] = tips[0]
    elif kind == "dupwell" and n > 1:
        wells[r.randrange(1, n)] = list(wells[0])
    elif kind == "twocol" and spec["cols"] > 1 and n > 1:
        # a well of another column: last, first, or in the middle of the list
        j = r.choice([n - 1, 0, n // 2])
        wells[j] = [wells[j][0], (col + 1) % spec["cols"]]
    # volumes: feasible for the observed state
    occ = {}
    for w in wells:
        occ[gen.real_idx(spec, w)] = occ.get(gen.real_idx(spec, w), 0) + 1
    wlmax = sess.prog["wl"]["maxv"]
    if name == "evo_aspirate":
        vmax = min(max(0, sess.vol[k][i] - spec["minv"]) // m for i, m in occ.items())
    else:
        vmax = min(max(0, spec["maxv"] - sess.vol[k][i]) // m for i, m in occ.items())
    vmax = min(vmax, wlmax)
    if r.random() < 0.4:
        vols = {"k": "s", "x": r.randint(0, vmax)}
    else:
        vols = {"k": "l", "x": [r.randint(0, vmax) for _ in range(n)]}
        if kind == "permuted":
            pass
    syms = [[r.choice(["int", "tip"]), t] for t in tips]
    if kind == "badtip":
        syms[r.randrange(n)] = r.choice([["int", 0], ["int", 9], ["any"]])
    if kind == "count":
        if r.random() < 0.5:
            syms = syms + [["int", r.choice([t for t in range(1, 9) if t not in tips] or [1])]] if len(tips) < 8 else syms[:-1]
        elif vols["k"] == "l":
            vols["x"] = vols["x"] + [0]
    op = {"op": name, "lw": k, "wells": {"k": "l", "x": wells} if n > 1 or r.random() < 0.6 else {"k": "s", "x": wells[0]},
          "tips": syms, "vols": vols, "lc": r.choice(["Water", "Water_FD", "", "DMSO free dispense"]), "label": r.choice([None, "evo step", ""])}
    if kind == "badnum":
        which = r.choice(["grid", "site", "arm", "vol"])
        if which == "grid":
            op["grid"] = r.choice([I(0), I(68), {"cls": "float", "v": 3}])
        elif which == "site":
            op["site"] = r.choice([I(0), I(129), {"cls": "float", "v": 1}])
        elif which == "arm":
            op["arm"] = r.choice([I(2), I(-1)])
        elif n > 1 and r.random() < 0.7:
            vv = [r.randint(0, 3) for _ in range(n)]
            vv[r.randrange(n - 1)] = wlmax + r.randint(1, 3)   # an oversized element that is not the last one
            op["vols"] = {"k": "l", "x": vv}
        else:
            op["vols"] = {"k": "s", "x": wlmax + r.randint(1, 3)}
    elif r.random() < 0.3:
        op["arm"] = I(r.choice([0, 1]))
    return op, {"wells": r.choice(["list", "ndarray", "tuple"]), "num": r.choice(["float", "int"])}


def wash_op(r, bad=False):
    g = {"tips": [[r.choice(["int", "tip"]), t] for t in r.sample(range(1, 9), r.randint(1, 8))],
         "wg": I(r.randint(1, 67)), "ws": I(r.randint(1, 128)), "cg": I(r.randint(1, 67)), "cs": I(r.randint(1, 128)), "arm": I(r.choice([0, 1])),
         "wv": r.choice([300, 0, 10000, r.randint(0, 999) * 10 + r.choice([0, 1, 2, 3, 4, 6, 7, 8, 9])]),
         "cv": r.choice([400, 0, 10000, r.randint(0, 999) * 10 + r.choice([1, 2, 3, 4, 6, 7, 8, 9])]),
         "wdelay": I(r.choice([0, 500, 1000, r.randint(0, 1000)])), "cdelay": I(r.choice([0, 500, 1000, r.randint(0, 1000)])),
         "airgap": I(r.choice([0, 10, 100, r.randint(0, 100)])), "aspeed": I(r.choice([1, 70, 1000, r.randint(1, 1000)])),
         "rspeed": I(r.choice([1, 30, 100, r.randint(1, 100)])), "fast": I(r.choice([0, 1])), "low": I(r.choice([0, 1]))}
    if r.random() < 0.3:
        g["tips"].append(list(g["tips"][0]))  # repeated tip: the mask is an OR
    if bad:
        k = r.choice(["wg", "ws", "cg", "cs", "arm", "wv", "cv", "wdelay", "cdelay", "airgap", "aspeed", "rspeed", "fast", "low", "tips"])
        hi = {"wg": 67, "cg": 67, "ws": 128, "cs": 128, "arm": 1, "wdelay": 1000, "cdelay": 1000, "airgap": 100, "aspeed": 1000, "rspeed": 100, "fast": 1, "low": 1}
        lo = {"wg": 1, "cg": 1, "ws": 1, "cs": 1, "aspeed": 1, "rspeed": 1}
        if k in ("wv", "cv"):
            g[k] = r.choice([10010, 20000, -10, 10004, 10001, -4, -1])  # also just beyond the range (less than the rounding step)
        elif k == "tips":
            g["tips"][0] = r.choice([["int", 0], ["int", 9]])
        else:
            g[k] = r.choice([I(hi[k] + 1), I(lo.get(k, 0) - 1), {"cls": "float", "v": lo.get(k, 0)}])
    return {"op": "evo_wash", "args": g}, {}


def evo_program(r, pid, nops, unit=Fraction(1), kinds=None):
    lws = [gen.mk_plate("plate", r.choice([8, 8, 4, 16, 3, 5, 6, 9, 12]), r.choice([12, 6, 2, 24, 5]), 0, 300, [150] * 1)]
    R, C = lws[0]["rows"], lws[0]["cols"]
    lws[0]["init"] = [r.choice([0, 150, 300, r.randint(0, 300)]) for _ in range(R * C)]
    V, TC = r.choice([1, 4, 8, 6]), r.choice([1, 2, 3])
    lws.append(gen.mk_trough("trough", V, TC, 10, 5000, [r.choice([2500, 5000, 10]) for _ in range(TC)]))
    h = gen.header(pid, "evo", unit, r.choice([950, 200, 50]), lws, flags={"comp": False, "norm": False})
    sess = gen.Session(h)
    if sess.broken:
        return sess.prog
    try:
        for i in range(nops):
            if r.random() < 0.2:
                op, pres = wash_op(r, bad=r.random() < 0.4)
            else:
                op, pres = evo_op(r, sess, kind=(r.choice(kinds) if kinds else None))
            sess.do(op, pres)
    finally:
        sess.close()
    return sess.prog


def targeted_programs():
    """The failing inputs of finding F-11 and their expressible neighbours."""
    progs = []
    lws = lambda: [gen.mk_plate("plate", 8, 3, 0, 3000, [1500] * 24), gen.mk_trough("trough", 4, 2, 0, 5000, [2500, 2500])]
    W = lambda rows, col=0: {"k": "l", "x": [[rw, col] for rw in rows]}
    T = lambda ns: [["int", n] for n in ns]
    cases = [
        ("canonical", W([0, 1]), T([1, 2]), {"k": "l", "x": [10, 20]}),
        ("duptip", W([0, 1]), T([1, 1]), {"k": "l", "x": [10, 20]}),
        ("swapped-wells", W([1, 0]), T([1, 2]), {"k": "l", "x": [10, 20]}),
        ("swapped-both", W([1, 0]), T([2, 1]), {"k": "l", "x": [10, 20]}),
        ("swapped-tips", W([0, 1]), T([2, 1]), {"k": "l", "x": [10, 20]}),
        ("dupwell", W([0, 0]), T([1, 2]), {"k": "l", "x": [10, 20]}),
        ("swapped-uniform", W([1, 0]), T([1, 2]), {"k": "s", "x": 10}),
        ("gaps", W([2, 5, 7]), T([1, 4, 8]), {"k": "l", "x": [1, 2, 3]}),
        ("gaps-perm", W([7, 2, 5]), T([8, 1, 4]), {"k": "l", "x": [3, 1, 2]}),
        ("all-eight", W(list(range(8)), 2), T(list(range(1, 9))), {"k": "l", "x": [1, 2, 3, 4, 5, 6, 7, 8]}),
        ("two-columns", {"k": "l", "x": [[0, 0], [1, 1]]}, T([1, 2]), {"k": "s", "x": 5}),
        ("foreign-column-in-the-middle", {"k": "l", "x": [[0, 0], [0, 1], [1, 0]]}, T([1, 2, 3]), {"k": "l", "x": [10, 20, 30]}),
        ("foreign-column-first", {"k": "l", "x": [[0, 1], [1, 0], [2, 0]]}, T([1, 2, 3]), {"k": "l", "x": [10, 20, 30]}),
        ("zero-in-the-middle", W([0, 1, 2]), T([1, 2, 3]), {"k": "l", "x": [10, 0, 30]}),
        ("zero-first", W([2, 4, 6]), T([2, 4, 6]), {"k": "l", "x": [0, 5, 7]}),
        ("all-zero", W([0, 1]), T([1, 2]), {"k": "s", "x": 0}),
        ("oversized-first", W([0, 1, 2]), T([1, 2, 3]), {"k": "l", "x": [951, 2, 3]}),
        ("oversized-middle", W([0, 1, 2]), T([1, 2, 3]), {"k": "l", "x": [1, 1000, 3]}),
        ("oversized-last", W([0, 1, 2]), T([1, 2, 3]), {"k": "l", "x": [1, 2, 951]}),
        ("oversized-after-zero", W([0, 1, 2]), T([1, 2, 3]), {"k": "l", "x": [0, 1000, 3]}),
        ("oversized-after-zeros", W([0, 1, 2, 3]), T([1, 2, 3, 4]), {"k": "l", "x": [0, 0, 5, 2000]}),
        # numbers and Tip members mixed: the order of the TIPS counts, not the order of the raw values (Tip.T4 has value 8)
        ("mixed-ascending", W([0, 1]), [["tip", 4], ["int", 5]], {"k": "l", "x": [10, 20]}),
        ("mixed-descending", W([0, 1]), [["int", 5], ["tip", 4]], {"k": "l", "x": [10, 20]}),
        ("mixed-ascending-3", W([1, 3, 6]), [["int", 2], ["tip", 3], ["int", 7]], {"k": "l", "x": [1, 2, 3]}),
        ("mixed-permuted-3", W([6, 1, 3]), [["int", 7], ["int", 2], ["tip", 3]], {"k": "l", "x": [3, 1, 2]}),
        ("mixed-wrong-3", W([1, 3, 6]), [["int", 3], ["tip", 2], ["int", 7]], {"k": "l", "x": [1, 2, 3]}),
    ]
    # per-tip volumes handed over as a tuple / an array: whether that is accepted is the library's business, an oversized or
    # mismatched element must not get into a command either way
    for present in ("tuple", "ndarray"):
        for name, vols in (("fits", [10, 20, 30]), ("oversized-last", [120, 80, 700]), ("oversized-first", [700, 80, 120]), ("too-few", [10, 20])):
            for opn in ("evo_aspirate", "evo_dispense"):
                h = gen.header(f"evo/foreign-{present}-{name}-{opn}", "evo", Fraction(1), 200, lws(), flags={"comp": False, "norm": False})
                h["ops"] = [{"op": opn, "lw": 0, "wells": W([0, 1, 2]), "tips": T([1, 2, 3]), "vols": {"k": "l", "x": vols}, "vols_present": present,
                             "lc": "Water", "label": "foreign"},
                            {"op": opn, "lw": 0, "wells": W([3, 4]), "tips": T([4, 5]), "vols": {"k": "l", "x": [5, 6]}, "lc": "Water", "label": "list"}]
                progs.append(h)
    # a plate with more than 100 columns: columns 10 and 100 .. 109 are different columns; liquid classes are taken literally
    wide = [gen.mk_plate("wide", 8, 110, 0, 3000, [1500] * 880), gen.mk_trough("trough", 4, 2, 0, 5000, [2500, 2500])]
    h = gen.header("evo/wide-plate", "evo", Fraction(1), 950, wide, flags={"comp": False, "norm": False})
    h["ops"] = [{"op": "evo_aspirate", "lw": 0, "wells": {"k": "l", "x": [[0, 9], [1, 99]]}, "tips": T([1, 2]), "vols": {"k": "s", "x": 10}, "lc": "W", "label": "A10 and B100"},
                {"op": "evo_aspirate", "lw": 0, "wells": {"k": "l", "x": [[0, 99], [1, 100]]}, "tips": T([1, 2]), "vols": {"k": "s", "x": 10}, "lc": "W", "label": "A100 and B101"},
                {"op": "evo_aspirate", "lw": 0, "wells": {"k": "l", "x": [[0, 100], [3, 100]]}, "tips": T([1, 4]), "vols": {"k": "l", "x": [10, 20]}, "lc": "Serum ", "label": "A101 and D101"},
                {"op": "evo_dispense", "lw": 0, "wells": {"k": "l", "x": [[2, 109], [5, 109], [7, 109]]}, "tips": T([3, 6, 8]), "vols": {"k": "s", "x": 7}, "lc": " padded class", "label": "column 110"},
                {"op": "evo_dispense", "lw": 0, "wells": {"k": "l", "x": [[0, 10], [1, 109]]}, "tips": T([1, 2]), "vols": {"k": "s", "x": 7}, "lc": "W", "label": "A11 and B110"}]
    progs.append(h)
    # evo_dispense with per-well compositions, wells (and tips) listed bottom-up
    lw4 = [gen.mk_plate("plate", 8, 3, 0, 3000, [100] * 8 + [0] * 16), gen.mk_trough("trough", 4, 2, 0, 5000, [2500, 2500])]
    h = gen.header("evo/compositions", "evo", Fraction(1), 950, lw4, flags={"comp": True, "norm": False})
    h["ops"] = [{"op": "evo_dispense", "lw": 0, "wells": W([3, 1, 0], 1), "tips": T([4, 2, 1]), "vols": {"k": "l", "x": [30, 20, 10]}, "lc": "W", "label": "bottom-up",
                 "comps": [{"acid": (1, 1)}, {"base": (1, 1)}, {"salt": (1, 2), "water": (1, 2)}]},
                {"op": "evo_dispense", "lw": 0, "wells": W([0, 1, 3], 1), "tips": T([1, 2, 4]), "vols": {"k": "s", "x": 10}, "lc": "W", "label": "top-down onto it",
                 "comps": [{"dye": (1, 1)}, {"dye": (1, 2), "water": (1, 2)}, {"water": (1, 1)}]},
                {"op": "evo_aspirate", "lw": 0, "wells": W([1, 3], 1), "tips": T([2, 4]), "vols": {"k": "l", "x": [5, 5]}, "lc": "W", "label": None}]
    progs.append(h)
    # a trough served by several tips with ONE scalar volume: every tip takes that volume from the same real well
    lw3 = [gen.mk_plate("plate", 8, 3, 0, 3000, [1500] * 24), gen.mk_trough("trough", 8, 2, 100, 5000, [1000, 4950])]
    h = gen.header("evo/trough-scalar-volume", "evo", Fraction(1), 950, lw3, flags={"comp": False, "norm": False})
    h["ops"] = [{"op": "evo_aspirate", "lw": 1, "wells": W(list(range(8)), 0), "tips": T(list(range(1, 9))), "vols": {"k": "s", "x": 200}, "lc": "T", "label": "8 x 200 > 1000 - 100 (four tips are booked, then the fifth fails)"},
                {"op": "evo_dispense", "lw": 1, "wells": W([2, 5], 1), "tips": T([3, 6]), "vols": {"k": "s", "x": 25}, "lc": "W\u00e4ssrig 20\u00b5l", "label": "2 x 25 fits exactly"},
                {"op": "evo_aspirate", "lw": 1, "wells": W([0, 1], 0), "tips": T([1, 2]), "vols": {"k": "s", "x": 50}, "lc": "T", "label": "2 x 50: 200 - 100 = 100"},
                {"op": "evo_aspirate", "lw": 1, "wells": W([0, 1, 2], 0), "tips": T([1, 2, 3]), "vols": {"k": "s", "x": 1}, "lc": "T", "label": "nothing can be taken any more"},
                {"op": "evo_dispense", "lw": 1, "wells": W([2, 5, 7], 1), "tips": T([3, 6, 8]), "vols": {"k": "s", "x": 20}, "lc": "T", "label": "3 x 20 > 5000 - 5000"}]
    progs.append(h)
    # deck positions at the limits of their ranges (grid 1..67, site 1..128), both arms, a trough served by all eight tips
    for grid, site in ((67, 127), (1, 0), (67, 0), (1, 127)):
        lw2 = [gen.mk_plate("plate", 8, 3, 0, 3000, [1500] * 24), gen.mk_trough("trough", 8, 2, 0, 50000, [25000, 25000])]
        lw2[0]["grid"], lw2[0]["site"] = grid, site
        lw2[1]["grid"], lw2[1]["site"] = (grid % 67) + 1, (site + 1) % 128
        h = gen.header(f"evo/position-limits-{grid}-{site}", "evo", Fraction(1), 950, lw2, flags={"comp": False, "norm": False})
        h["ops"] = [{"op": "evo_aspirate", "lw": 0, "wells": W([0, 3, 7], 1), "tips": T([1, 4, 8]), "vols": {"k": "l", "x": [10, 20, 30]}, "lc": "Water free dispense", "label": "plate",
                     "arm": I(1)},
                    {"op": "evo_aspirate", "lw": 1, "wells": W(list(range(8)), 1), "tips": T(list(range(1, 9))), "vols": {"k": "l", "x": [1, 2, 3, 4, 5, 6, 7, 8]}, "lc": "Trough", "label": "all tips in one trough column"},
                    {"op": "evo_dispense", "lw": 1, "wells": W(list(range(8)), 0), "tips": T(list(range(1, 9))), "vols": {"k": "s", "x": 950}, "lc": "Trough", "label": None, "arm": I(0)},
                    {"op": "evo_dispense", "lw": 0, "wells": W([7], 2), "tips": T([8]), "vols": {"k": "s", "x": 0}, "lc": "L", "label": "nothing"}]
        progs.append(h)
    # labware that share a name but not a geometry (script commands address by grid and site): the same wells of each, in turn
    same = [gen.mk_plate("plate", 8, 3, 0, 3000, [1500] * 24), gen.mk_plate("plate", 4, 6, 0, 3000, [1500] * 24),
            gen.mk_trough("plate", 6, 2, 0, 5000, [2500, 2500]), gen.mk_plate("plate", 16, 24, 0, 3000, [100] * 384)]
    h = gen.header("evo/namesakes-of-other-geometry", "evo", Fraction(1), 950, same, flags={"comp": False, "norm": False})
    h["ops"] = []
    for opn in ("evo_aspirate", "evo_dispense"):
        for k in (0, 1, 2, 3, 1, 0):
            h["ops"].append({"op": opn, "lw": k, "wells": W([0, 1, 3], 1), "tips": T([1, 2, 4]), "vols": {"k": "l", "x": [5, 6, 7]}, "lc": "W", "label": f"labware {k}"})
    progs.append(h)
    for name, wells, tips, vols in cases:
        for opn in ("evo_aspirate", "evo_dispense"):
            h = gen.header(f"evo/{name}-{opn}", "evo", Fraction(1), 950, lws(), flags={"comp": False, "norm": False})
            h["ops"] = [{"op": opn, "lw": 0, "wells": wells, "tips": tips, "vols": vols, "lc": "Water", "label": "cmd"},
                        {"op": opn, "lw": 1, "wells": W([0, 2] if name != "two-columns" else [1, 3]), "tips": T([3, 5]), "vols": {"k": "l", "x": [7, 9]}, "lc": "Trough", "label": None}]
            progs.append(h)
    return progs


def rounding_programs():
    """Script commands with volumes that have a third decimal (unit 1/1000 microlitre, third decimal never 5): the command text
    carries two decimals, the labware is booked with exactly what was asked for."""
    progs = []
    W = lambda rows, col=0: {"k": "l", "x": [[rw, col] for rw in rows]}
    T = lambda ns: [["int", n] for n in ns]
    lws = lambda: [gen.mk_plate("plate", 8, 3, 0, 3000000, [1500000] * 24), gen.mk_trough("trough", 4, 2, 0, 5000000, [2500000, 2500000])]
    cases = [
        ("thirds", W([0, 1, 2]), T([1, 2, 3]), {"k": "l", "x": [33333, 12344, 4]}),
        ("tiny", W([4, 6], 1), T([5, 7]), {"k": "l", "x": [6, 10001]}),
        ("uniform", W([0, 1, 2, 3], 2), T([1, 2, 3, 4]), {"k": "s", "x": 66667}),
    ]
    for name, wells, tips, vols in cases:
        h = gen.header(f"evo/rounding-{name}", "evo", Fraction(1, 1000), 950000, lws(), flags={"comp": False, "norm": False})
        h["millis"] = True
        h["ops"] = [{"op": "evo_aspirate", "lw": 0, "wells": wells, "tips": tips, "vols": vols, "lc": "Water", "label": "a"},
                    {"op": "evo_dispense", "lw": 0, "wells": wells, "tips": tips, "vols": vols, "lc": "Water", "label": "d"},
                    # all tips of the second command meet in one real well of the trough: the deviations would add up
                    {"op": "evo_aspirate", "lw": 1, "wells": W([0, 1, 2, 3], 1), "tips": T([1, 2, 3, 4]), "vols": {"k": "s", "x": 33333}, "lc": "T", "label": None},
                    {"op": "evo_dispense", "lw": 1, "wells": W([0, 1, 2, 3]), "tips": T([1, 2, 3, 4]), "vols": {"k": "l", "x": [4, 4, 4, 4]}, "lc": "T", "label": None}]
        progs.append(h)
    return progs
