"""Specification -> code: behaviours enumerated by TLC on the bounded twin model (MC_TwinGen) are
turned into programs for the real implementation; every step carries what the model says."""
import os
from fractions import Fraction

from .. import gen
from ..common import SPEC
from ..tlc import run_tlc


def _label(l):
    return l["l"] if l["h"] else None


def _op(o):
    name = o["op"]
    if name in ("add", "remove", "aspirate", "dispense"):
        op = {"op": name, "lw": o["lw"] - 1, "wells": o["wells"], "vols": o["vols"], "label": _label(o["label"])}
        if o.get("hascomps"):
            op["comps"] = [{t[0]: (t[1], t[2]) for t in c} for c in o["comps"]]
        return op
    if name == "transfer":
        w = o["wash"]
        return {"op": "transfer", "src": o["src"] - 1, "sw": o["sw"], "dst": o["dst"] - 1, "dw": o["dw"], "vols": o["vols"],
                "label": _label(o["label"]), "wash": int(w) if w in ("1", "2", "3", "4") else w, "pby": o["pby"]}
    if name == "distribute":
        lab = o["label"]["l"] if o["label"]["h"] else ""
        return {"op": "distribute", "src": o["src"] - 1, "col": o["col"], "dst": o["dst"] - 1, "dw": o["dw"], "vol": o["vol"],
                "md": o["md"], "reuse": o["reuse"], "label": lab, "dir": o["dir"], "lc": o["lc"]}
    if name == "setconfig":
        return {"op": "setconfig", "maxv": o["maxv"], "autosplit": o["autosplit"], "diti": o["diti"]}
    raise RuntimeError(f"unknown model operation {name}")


def generate(cfg, timeout=900):
    """Run TLC on MC_TwinGen with the given cfg; returns (programs, TLCResult)."""
    res = run_tlc(os.path.join(SPEC, "mc", "MC_TwinGen.tla"), os.path.join(SPEC, "mc", cfg + ".cfg"), workers=1, timeout=timeout, want_out=True)
    if res.out is None:
        return [], res
    data = res.out
    progs = []
    for i, b in enumerate(data["behaviours"]):
        lws = [gen.mk_plate("P", 2, 2, 0, 6, b["init"][0]), gen.mk_trough("Q", 2, 2, 1, 8, b["init"][1])]
        h = gen.header(f"model/{cfg}/{i}", data["dev"], Fraction(1), data["wlmax"], lws, autosplit=data["autosplit"],
                       flags={"comp": True, "norm": False})
        ops = []
        lims = [[0, 6], [1, 8]]
        for st in b["ops"]:
            if st["op"]["op"] == "setlimits":
                # one assignment per labware whose limits differ; the model's verdict goes with the last one
                new = [list(x) for x in st["op"]["lims"]]
                changed = [k for k in range(2) if new[k] != lims[k]]
                for j, k in enumerate(changed):
                    o = {"op": "setlimits", "lw": k, "minv": new[k][0], "maxv": new[k][1]}
                    if j == len(changed) - 1:
                        o["model"] = {"out": st["out"], "vol": st["vol"]}
                    ops.append(o)
                lims = new
                continue
            op = _op(st["op"])
            if op["op"] == "distribute" and not st["op"]["label"]["h"]:
                # the model's "no label" is distribute()'s default label ""
                op["label"] = ""
            op["model"] = {"out": st["out"], "vol": st["vol"]}
            ops.append(op)
        h["ops"] = ops
        progs.append(h)
    return progs, res
