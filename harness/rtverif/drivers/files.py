"""Programs that save worklists: explicit save, with-block, pre-existing files, str() (C17, C03)."""
from fractions import Fraction

from .. import gen
from . import emitters


def E(fn, **a):
    return {"op": "emit", "fn": fn, "args": a}


def I(n):
    return {"cls": "int", "v": n}


def _hdr(pid, dev, pathkind="str", file=True):
    lws = [gen.mk_plate("plate", 2, 3, 0, 100, [50, 0, 20, 0, 0, 0]), gen.mk_trough("trough", 4, 2, 0, 500, [400, 100])]
    h = gen.header(pid, dev, Fraction(1), 30, lws, flags={"comp": False, "norm": False, "file": True})
    if file:
        h["wl"]["file"] = True
        h["wl"]["pathkind"] = pathkind
        h["wl"]["fname"] = "run.gwl"
    return h


def L(ws):
    return {"k": "l", "x": [list(w) if isinstance(w, (tuple, list)) else w for w in ws]}


def targeted_programs(dev):
    progs = []
    some = [E("comment", text="µL of Würze: 50 % – no, 50 % ½"[:20].replace("–", "-")), E("flush"), E("wash", scheme=I(2)),
            E("aspirate_well", rack="R1", pos=I(3), vol=12340, lc="LC µ"), E("dispense_well", rack="R2", pos=I(96), vol=12340),
            E("reagent_distribution", srack="S", s1=I(1), s2=I(8), drack="D", d1=I(1), d2=I(12), vol=5000, excl=[3, 5]),
            E("commit"), E("decontaminate"), E("set_diti", idx=I(2))]
    # a with-block around real operations, then explicit saves to another path with pre-existing content
    for pk in ("str", "path"):
        h = _hdr(f"files/with-{pk}", dev, pk)
        h["ops"] = [{"op": "enter"}, some[0], some[3],
                    {"op": "transfer", "src": 1, "sw": L([(0, 0), (1, 0)]), "dst": 0, "dw": L([(0, 1), (1, 1)]), "vols": L([40, 7]), "label": "t µ", "wash": 1},
                    {"op": "str"}, {"op": "exit", "pre": "longer"},
                    {"op": "save", "pre": "longer", "pathkind": pk}, {"op": "save", "pre": "shorter", "pathkind": pk}, {"op": "save", "pathkind": pk},
                    some[1], {"op": "save", "pathkind": pk}, {"op": "str"},
                    {"op": "enter"}, {"op": "str"}, {"op": "exit", "pre": "absent"}, {"op": "save", "pre": "longer"},
                    some[2], {"op": "exit", "pre": "shorter"}, {"op": "save", "ext": "none"}, {"op": "save", "ext": "none", "fname": "worklist"},
                    {"op": "save", "fname": "other.gwl"}]
        progs.append(h)
    # a block that is left while an exception propagates still saves exactly the records so far
    h = _hdr("files/abort", dev)
    h["ops"] = [{"op": "enter"}, some[5], {"op": "distribute", "src": 1, "col": 1, "dst": 0, "dw": L([(0, 1), (1, 2)]), "vol": 30, "label": "ok"},
                {"op": "distribute", "src": 1, "col": 1, "dst": 0, "dw": L([(0, 1), (1, 2)]), "vol": 25, "label": "underflow"},
                {"op": "exit", "exc": True, "pre": "longer"}]
    progs.append(h)
    # every record type, one record, no record
    h = _hdr("files/types", dev)
    ops = [{"op": "enter"}, {"op": "exit"}, {"op": "save"}]
    for e in some:
        ops += [e, {"op": "save", "pre": "longer"}, {"op": "str"}]
    h["ops"] = ops + [{"op": "exit", "pre": "longer"}]
    progs.append(h)
    # saving somewhere else inside the block must not redirect the save on exit; a second block with as many
    # records as the first must overwrite the file; a record edited in place must be written
    h = _hdr("files/reuse", dev)
    h["ops"] = [{"op": "enter"}, some[1], some[2], {"op": "save", "fname": "snapshot.gwl"}, some[6], {"op": "exit", "pre": "longer"},
                {"op": "enter"}, some[7], some[0], some[3], {"op": "exit"},
                {"op": "enter"}, some[4], some[1], some[6], {"op": "exit"}, {"op": "save", "fname": "snapshot.gwl"},
                {"op": "save", "fname": "snapshot.gwl", "pre": "shorter"}]
    progs.append(h)
    # parameterless records are equal strings (possibly the very same object): the last record equals earlier ones
    h = _hdr("files/repeated-records", dev)
    h["ops"] = [{"op": "enter"}, some[1], some[6], some[0], some[1], some[6], {"op": "save", "pre": "longer"}, {"op": "str"},
                some[6], some[6], {"op": "save"}, some[1], some[1], some[1], {"op": "exit", "pre": "shorter"}]
    progs.append(h)
    # ".gwl" in a directory name is not an extension of the file name
    h = _hdr("files/extension-of-the-name", dev)
    h["ops"] = [{"op": "enter"}, some[1], some[6],
                {"op": "save", "ext": "none", "fname": "assay.gwl.d/part1.txt"}, {"op": "save", "ext": "none", "fname": "archive.gwl/worklist"},
                {"op": "save", "ext": "none", "fname": "x.gwl.bak/notes.md", "pathkind": "path"},
                {"op": "save", "fname": "plain.dir/inside.gwl"}, {"op": "save", "fname": "a.gwl.d/b.gwl", "pathkind": "path"},
                # other letter cases of the extension: whether they are taken is not pinned; if they are, the file is the one that was named
                {"op": "save", "ext": "case", "fname": "PLATE1.GWL", "pre": "longer"}, {"op": "save", "ext": "case", "fname": "Run_02.Gwl", "pathkind": "path"},
                some[3], {"op": "save", "ext": "case", "fname": "PLATE1.GWL"}, {"op": "save", "ext": "case", "fname": "sub.dir/x.gWl", "pre": "shorter"}, {"op": "exit"}]
    progs.append(h)
    # rack labels with Latin-1 letters: the file must address the same racks as the record list
    h = _hdr("files/latin1-racks", dev)
    h["lw"][0]["name"] = "N\u00e4hrmedium"
    h["lw"][1]["name"] = "K\u00fcvetten_\u00b5"
    h["ops"] = [{"op": "enter"},
                {"op": "transfer", "src": 1, "sw": L([(0, 0), (1, 0)]), "dst": 0, "dw": L([(0, 1), (1, 1)]), "vols": L([40, 7]), "label": "gr\u00fcn", "wash": 1},
                {"op": "distribute", "src": 1, "col": 1, "dst": 0, "dw": L([(0, 2), (1, 2)]), "vol": 10, "label": "d"},
                {"op": "save", "pre": "longer"}, {"op": "exit", "pre": "shorter"}]
    progs.append(h)
    # a long worklist (more than 1024 records from one full-plate transfer): every record on its own line, str() shows all
    h = _hdr("files/long", dev)
    h["lw"] = [gen.mk_plate("source", 16, 24, 0, 100, [50] * 384), gen.mk_plate("target", 16, 24, 0, 100, [0] * 384)]
    allw = [(rr, cc) for cc in range(24) for rr in range(16)]
    h["ops"] = [{"op": "enter"},
                {"op": "transfer", "src": 0, "sw": L(allw), "dst": 1, "dw": L(allw), "vols": {"k": "s", "x": 1}, "label": "Gr\u00f6\u00dfe: 5 \u00b5L", "wash": 1},
                {"op": "save", "pre": "longer"}, {"op": "str"}, {"op": "exit", "pre": "shorter"}]
    progs.append(h)
    # saving inside the block and again at its end, after the list was cleared, with only comments, into a directory with a
    # non-ASCII name
    h = _hdr("files/clear-and-comments", dev)
    h["ops"] = [{"op": "enter"}, some[1], some[6], {"op": "save", "fname": "W\u00fcrze/run.gwl", "pre": "absent"}, {"op": "clear"}, {"op": "str"},
                {"op": "save", "fname": "W\u00fcrze/run.gwl", "pre": "longer"},
                E("comment", text="only a comment  "), E("comment", text="two\nlines "), {"op": "save", "fname": "W\u00fcrze/run.gwl"}, {"op": "str"},
                {"op": "exit", "pre": "longer"}, {"op": "clear"}, {"op": "exit", "pre": "shorter"}, some[3], {"op": "exit"}]
    progs.append(h)
    # a save to the block's own path inside the block, more records afterwards: the file written on exit has all of them
    h = _hdr("files/save-own-path-inside", dev)
    h["ops"] = [{"op": "enter"}, some[1], some[3], {"op": "save", "fname": "run.gwl"}, some[6], some[0], some[4], {"op": "exit"},
                {"op": "enter"}, some[2], {"op": "save", "fname": "run.gwl", "pathkind": "path"}, {"op": "save", "fname": "run.gwl"}, some[1], {"op": "exit", "pre": "longer"}]
    progs.append(h)
    # free text in the last field of a record may end in a blank (or a Latin-1 non-breaking space): the file has it too
    h = _hdr("files/blanks-at-the-ends", dev)
    h["ops"] = [{"op": "enter"},
                E("aspirate_well", rack="R1", pos=I(3), vol=12340, frt="96 Well Microplate "),
                E("dispense_well", rack="R2", pos=I(4), vol=5000, frt="tube\u00a0"),
                E("aspirate_well", rack="R1", pos=I(5), vol=1000, frt=" padded"),
                {"op": "save", "pre": "longer"}, {"op": "str"}, {"op": "exit", "pre": "shorter"}]
    progs.append(h)
    # an older file with the same records but LF / CR line ends is residue like any other: the new file has CRLF
    h = _hdr("files/same-records-other-line-ends", dev)
    h["ops"] = [{"op": "enter"}, some[1], some[6], some[0], some[3], {"op": "save", "pre": "same-lf"}, {"op": "save", "pre": "same-cr", "pathkind": "path"},
                some[2], {"op": "exit", "pre": "same-lf"}]
    progs.append(h)
    # the caller edits the record list with the list's own operations before it saves or prints it
    h = _hdr("files/edited-by-hand", dev)
    ED = lambda kind, **kw: dict({"op": "listedit", "kind": kind}, **kw)  # noqa
    h["ops"] = [{"op": "enter"}, some[1], some[6], some[0], some[3], some[4], {"op": "save", "pre": "absent"},
                ED("pop"), {"op": "str"}, {"op": "save", "pre": "longer"},
                ED("insert", i=1, text="C;inserted by hand \u00b5"), {"op": "str"}, {"op": "save"},
                ED("setitem", i=0, text="C;first record replaced"), ED("pop0"), {"op": "save", "pre": "shorter"}, {"op": "str"},
                some[2], ED("reverse"), {"op": "str"}, {"op": "save", "pathkind": "path"},
                ED("delslice", i=1, j=3), {"op": "str"}, some[5], ED("insert", i=0, text="B;"), {"op": "exit", "pre": "longer"},
                ED("delslice", i=0, j=50), {"op": "str"}, {"op": "exit", "pre": "longer"}]
    progs.append(h)
    # a path without the extension given to the constructor: leaving the block refuses it like save() does
    for fname in ("worklist.txt", "worklist", "run.txt"):
        h = _hdr(f"files/constructor-path-{fname}", dev)
        h["wl"]["fname"] = fname
        h["ops"] = [{"op": "enter"}, some[1], some[3], {"op": "exit", "ext": "none"}, {"op": "str"}, some[2], {"op": "exit", "ext": "none"}]
        progs.append(h)
    # the eight Latin-1 characters that Latin-9 (ISO 8859-15) does not have, and the rest of the upper half
    h = _hdr("files/latin1-not-latin9", dev)
    h["ops"] = [{"op": "enter"}, E("comment", text="\u00a4 \u00a6 \u00a8 \u00b4 \u00b8 \u00bc \u00bd \u00be"), E("comment", text="dilute \u00bd, then \u00be"),
                E("comment", text="".join(chr(c) for c in range(161, 200))), E("comment", text="".join(chr(c) for c in range(200, 256))),
                {"op": "str"}, {"op": "save", "pre": "longer"}, {"op": "exit", "pre": "shorter"}]
    progs.append(h)
    # a worklist without a path: leaving the block writes nothing
    h = _hdr("files/nopath", dev, file=False)
    h["ops"] = [{"op": "enter"}, some[1], {"op": "exit"}, {"op": "str"}, {"op": "save"}]
    progs.append(h)
    return progs


def file_program(r, pid, dev):
    h = _hdr(pid, dev, r.choice(["str", "path"]))
    ops = [{"op": "enter"}] if r.random() < 0.7 else []
    for _ in range(r.randint(1, 12)):
        k = r.random()
        if k < 0.45:
            ops.append(emitters.simple_call(r, False, invalid=r.random() < 0.15))
        elif k < 0.6:
            ops.append(emitters.well_call(r, 30, None))
        elif k < 0.7:
            ops.append(emitters.r_call(r, 30, None))
        elif k < 0.8:
            ops.append({"op": "str"})
        elif k < 0.92:
            ops.append({"op": "save", "pre": r.choice(["absent", "longer", "shorter"]), "pathkind": r.choice(["str", "path"]),
                        "fname": r.choice([None, "b.gwl"])})
        elif k < 0.96:
            ops.append({"op": "enter"})
        else:
            ops.append({"op": "save", "ext": "none"})
    ops.append({"op": "exit", "pre": r.choice(["absent", "longer", "shorter"]), "exc": r.random() < 0.3})
    h["ops"] = ops
    return h
