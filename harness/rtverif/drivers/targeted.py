"""Fixed, discriminating programs derived from the mutant classes the properties name.
They run before any random case so that quick-tier detection does not depend on luck."""
from fractions import Fraction

from .. import gen

U1 = Fraction(1)


def _hdr(pid, dev, lws, wlmax=5, unit=U1, autosplit=True, diti=False, flags=None):
    fl = {"comp": True, "norm": True}
    fl.update(flags or {})
    return gen.header(pid, dev, unit, wlmax, lws, autosplit=autosplit, diti=diti, flags=fl)


def L(ws):
    return {"k": "l", "x": [list(w) if isinstance(w, (tuple, list)) else w for w in ws]}


def S(x):
    return {"k": "s", "x": list(x) if isinstance(x, tuple) else x}


def M(rows):
    return {"k": "m", "x": [[list(e) if isinstance(e, tuple) else e for e in row] for row in rows]}


def base_labware():
    return [
        gen.mk_plate("plate", 3, 4, 0, 30, [6, 0, 0, 0, 9, 0, 0, 0, 0, 0, 0, 12]),
        gen.mk_trough("trough", 4, 3, 2, 60, [50, 40, 0]),
        gen.mk_plate("strip", 1, 5, 1, 20, [5, 0, 10, 0, 0], names=["a", None, "b", None, None]),
    ]


def worklist_programs(dev):
    """Programs of successful worklist operations with discriminating shapes (C01, C04, C05, C07, C16)."""
    progs = []
    P, T, Sx = 0, 1, 2

    def prog(name, ops, **kw):
        h = _hdr(f"targeted/{name}", dev, base_labware(), **kw)
        h["ops"] = ops
        h["pres"] = [{"wells": "ndarray", "vols": "ndarray"} if i % 2 else {} for i in range(len(ops))]
        progs.append(h)

    # trough source with virtual rows > 0, split volumes, all partition modes
    for pby in ("auto", "source", "destination"):
        prog(f"trough-vrows-{pby}", [
            {"op": "transfer", "src": T, "sw": L([(1, 0), (3, 0), (2, 1)]), "dst": P, "dw": L([(2, 3), (0, 1), (1, 0)]),
             "vols": L([3, 12, 7]), "label": "from trough", "wash": 1, "pby": pby},
            {"op": "transfer", "src": P, "sw": L([(2, 3), (0, 0)]), "dst": T, "dw": L([(3, 2), (0, 2)]),
             "vols": L([6, 11]), "label": None, "wash": "flush", "pby": pby},
        ])
    # sort order differs from input order in both lists; repeated wells; reuse
    prog("resort-both", [
        {"op": "transfer", "src": P, "sw": L([(2, 3), (0, 0), (1, 1), (0, 0)]), "dst": Sx, "dw": L([(0, 4), (0, 1), (0, 3), (0, 0)]),
         "vols": L([2, 1, 4, 3]), "label": "resort", "wash": "reuse", "pby": "source"},
        {"op": "transfer", "src": Sx, "sw": L([(0, 4), (0, 0), (0, 2)]), "dst": P, "dw": L([(1, 0), (2, 0), (0, 0)]),
         "vols": L([1, 3, 8]), "label": "back", "wash": 3, "pby": "destination"},
    ])
    # the same (source, destination) pair listed several times, with other triples in between
    prog("repeated-pair", [
        {"op": "transfer", "src": T, "sw": L([(0, 0), (1, 1), (0, 0), (0, 0)]), "dst": P, "dw": L([(1, 1), (0, 2), (1, 1), (1, 1)]),
         "vols": L([3, 2, 1, 3]), "label": "repeat", "wash": 1, "pby": "auto"},
        {"op": "transfer", "src": P, "sw": L([(1, 1), (1, 1)]), "dst": Sx, "dw": L([(0, 3), (0, 3)]), "vols": L([2, 4]), "label": "again", "wash": "reuse", "pby": "source"},
    ])
    # a well that is destination of an earlier and source of a later triple of the same call (one column group)
    prog("chain-in-one-call", [
        {"op": "transfer", "src": P, "sw": L([(0, 0), (1, 0)]), "dst": P, "dw": L([(1, 0), (2, 0)]), "vols": S(3), "label": "chain", "wash": 1, "pby": "source"},
        {"op": "transfer", "src": T, "sw": L([(0, 0)]), "dst": P, "dw": L([(0, 3)]), "vols": S(4), "label": "prep", "wash": 1},
        {"op": "transfer", "src": P, "sw": L([(2, 3), (0, 3), (1, 3)]), "dst": P, "dw": L([(0, 3), (1, 3), (1, 3)]), "vols": L([6, 5, 2]), "label": "chain2", "wash": 1, "pby": "source"},
    ])
    # 2-D, non-square arguments whose row-major and column-major readings differ; broadcast forms
    prog("two-d", [
        {"op": "dispense", "lw": P, "wells": M([[(0, 0), (0, 1), (0, 2)], [(1, 0), (1, 1), (1, 2)]]),
         "vols": M([[1, 2, 3], [4, 5, 0]]), "label": "2d", "comps": [{"w": (1, 1)}] * 6},
        {"op": "aspirate", "lw": P, "wells": M([[(0, 0), (0, 1), (0, 2)], [(1, 0), (1, 1), (1, 2)]]),
         "vols": M([[1, 0, 2], [3, 4, 0]]), "label": None},
        {"op": "transfer", "src": T, "sw": S((2, 0)), "dst": P, "dw": M([[(0, 2), (0, 3)], [(1, 2), (1, 3)], [(2, 2), (2, 3)]]),
         "vols": M([[1, 2], [3, 4], [5, 6]]), "label": "bc", "wash": 2, "pby": "auto"},
        {"op": "transfer", "src": P, "sw": M([[(0, 2), (0, 3)], [(1, 2), (1, 3)]]), "dst": Sx, "dw": S((0, 1)),
         "vols": S(1), "label": "many-one", "wash": 4, "pby": "auto"},
    ])
    # distribute to non-contiguous destinations, right to left, multi dispense, then from column 1
    prog("distribute", [
        {"op": "distribute", "src": T, "col": 0, "dst": P, "dw": L([(2, 3), (0, 0), (1, 2), (0, 1)]), "vol": 3, "md": 6,
         "reuse": 2, "label": "spread", "dir": "right_to_left", "lc": "Water"},
        {"op": "distribute", "src": T, "col": 1, "dst": P, "dw": M([[(0, 0), (0, 2)], [(1, 0), (1, 2)]]), "vol": 5, "md": 3,
         "label": "", "dir": "left_to_right"},
        {"op": "distribute", "src": T, "col": 1, "dst": Sx, "dw": L([(0, 1), (0, 3), (0, 4)]), "vol": 2, "label": "strip"},
        {"op": "distribute", "src": T, "col": 0, "dst": T, "dw": L([(1, 2)]), "vol": 4, "label": "self"},
    ])
    # serial dilution within one labware, emptied and refilled wells, one-well self transfer, zero steps
    prog("dilution-chain", [
        {"op": "transfer", "src": P, "sw": L([(0, 0)]), "dst": P, "dw": L([(1, 0)]), "vols": S(3), "label": "d1", "wash": 1},
        {"op": "transfer", "src": T, "sw": L([(0, 1)]), "dst": P, "dw": L([(1, 0)]), "vols": S(3), "label": "fill", "wash": 1},
        {"op": "transfer", "src": P, "sw": L([(1, 0)]), "dst": P, "dw": L([(2, 0)]), "vols": S(2), "label": "d2", "wash": 1},
        {"op": "transfer", "src": P, "sw": L([(2, 0)]), "dst": P, "dw": L([(2, 0)]), "vols": S(1), "label": "mix", "wash": "reuse"},
        {"op": "transfer", "src": P, "sw": L([(2, 0)]), "dst": Sx, "dw": L([(0, 1)]), "vols": S(2), "label": "empty it", "wash": 1},
        # the drained well is refilled with a liquid that shares no component with what it held before
        {"op": "transfer", "src": T, "sw": L([(2, 0)]), "dst": P, "dw": L([(2, 0)]), "vols": S(2), "label": "refill with another liquid", "wash": 1},
        {"op": "transfer", "src": P, "sw": L([(0, 0), (1, 0)]), "dst": P, "dw": L([(2, 0), (2, 0)]), "vols": L([0, 2]), "label": "top up", "wash": 1},
        {"op": "distribute", "src": T, "col": 1, "dst": Sx, "dw": L([(0, 1), (0, 3)]), "vol": 1, "label": "into the drained strip well"},
        {"op": "transfer", "src": P, "sw": L([(0, 0)]), "dst": P, "dw": L([(0, 1)]), "vols": S(0), "label": "nothing", "wash": 1},
    ], wlmax=2)
    # DiTi mode and flush, wash 4
    prog("diti", [
        {"op": "transfer", "src": T, "sw": L([(0, 0), (1, 0)]), "dst": P, "dw": L([(0, 1), (1, 1)]), "vols": L([4, 11]),
         "label": "diti", "wash": 4, "pby": "auto"},
        {"op": "transfer", "src": T, "sw": L([(0, 1)]), "dst": P, "dw": L([(0, 1)]), "vols": S(3), "label": None, "wash": "flush"},
    ], diti=True)
    return progs


BIG = 2**30  # "exceeds every limit": handed to the code as inf


def limit_programs(dev):
    """Exact limit, one unit beyond, huge values, for every mutator (C02)."""
    progs = []
    P, T = 0, 1

    def lw():
        return [gen.mk_plate("plate", 2, 3, 2, 10, [10, 2, 5, 0, 1, 7]), gen.mk_trough("trough", 3, 2, 1, 12, [12, 0])]

    def prog(name, ops, unit=U1, **kw):
        h = _hdr(f"limits/{name}", dev, lw(), unit=unit, flags={"comp": False, "norm": False, "robot": False}, **kw)
        h["ops"] = ops
        progs.append(h)

    for unit in (U1, Fraction(1, 2**40), Fraction(2**10)):
        tag = f"u{unit.numerator}_{unit.denominator}"
        prog(f"add-{tag}", [
            {"op": "add", "lw": P, "wells": L([(0, 1)]), "vols": S(5), "label": "to the limit"},       # 5 + 5 = 10 = max: ok
            {"op": "add", "lw": P, "wells": L([(0, 1)]), "vols": S(1), "label": "one beyond"},         # overflow
            {"op": "add", "lw": P, "wells": L([(1, 1), (1, 2), (1, 1)]), "vols": L([4, 3, 7]), "label": None},  # third overflows (4+7 > 10)
            {"op": "add", "lw": P, "wells": L([(1, 0)]), "vols": S(BIG), "label": None},
            {"op": "add", "lw": T, "wells": L([(0, 1), (2, 1)]), "vols": L([6, 6]), "label": None},     # alias: 0+6+6 = 12 = max ok
            {"op": "add", "lw": T, "wells": L([(1, 1)]), "vols": S(1), "label": None},                  # overflow via alias
            {"op": "add", "lw": P, "wells": L([(0, 0), (1, 0)]), "vols": L([1, -1]), "label": "negative"},
            {"op": "remove", "lw": P, "wells": L([(0, 0)]), "vols": S(-2), "label": "negative"},
        ], unit=unit)
        prog(f"remove-{tag}", [
            {"op": "remove", "lw": P, "wells": L([(0, 0)]), "vols": S(8), "label": "down to min"},      # 10 - 8 = 2 = min ok
            {"op": "remove", "lw": P, "wells": L([(0, 0)]), "vols": S(1), "label": "below min"},        # underflow
            {"op": "remove", "lw": P, "wells": L([(1, 2), (0, 1), (1, 2)]), "vols": L([3, 1, 3]), "label": None},  # 7-3-3 = 1 < 2: third underflows
            {"op": "remove", "lw": P, "wells": L([(1, 1)]), "vols": S(0), "label": "zero from empty"},  # 0 - 0 < min 2: refused
            {"op": "remove", "lw": T, "wells": L([(0, 0), (1, 0), (2, 0)]), "vols": S(4), "label": None},  # 12 - 12 = 0 < 1: third underflows
            {"op": "remove", "lw": T, "wells": L([(2, 0)]), "vols": S(BIG), "label": None},
            # one virtual well named twice with another row of the same column in between: 12 - 4 - 4 - 4 = 0 < 1
            {"op": "add", "lw": T, "wells": L([(0, 0)]), "vols": S(8), "label": "refill"},
            {"op": "remove", "lw": T, "wells": L([(0, 0), (1, 0), (0, 0)]), "vols": L([4, 4, 4]), "label": "A B A"},
            {"op": "aspirate", "lw": T, "wells": L([(2, 0), (0, 0), (2, 0), (1, 0)]), "vols": L([1, 1, 1, 1]), "label": "C A C B: 4 - 4 = 0 < 1"},
            {"op": "add", "lw": T, "wells": L([(0, 1), (1, 1), (0, 1)]), "vols": L([5, 5, 5]), "label": "A B A: 15 > 12"},
        ], unit=unit)
    big = [gen.mk_plate("waste", 1, 2, 100000, 25000000, [24999000, 100500]), gen.mk_trough("res", 8, 1, 1000000, 250000000, [249999990])]
    for d in (dev,):
        h = _hdr("limits/large-vessels", d, big, wlmax=1000, flags={"comp": False, "norm": False, "robot": False})
        h["ops"] = [
            {"op": "add", "lw": 0, "wells": L([(0, 0)]), "vols": S(1000), "label": "to the limit"},
            {"op": "add", "lw": 0, "wells": L([(0, 0)]), "vols": S(2), "label": "2 beyond 25e6"},
            {"op": "dispense", "lw": 1, "wells": L([(3, 0)]), "vols": S(10), "label": "to the limit"},
            {"op": "dispense", "lw": 1, "wells": L([(5, 0)]), "vols": S(1), "label": "1 beyond 250e6"},
            {"op": "remove", "lw": 0, "wells": L([(0, 1)]), "vols": S(500), "label": "to min"},
            {"op": "aspirate", "lw": 0, "wells": L([(0, 1)]), "vols": S(1), "label": "1 below min 1e5"},
            {"op": "transfer", "src": 0, "sw": L([(0, 0)]), "dst": 1, "dw": L([(0, 0)]), "vols": S(1), "label": "overflow by 1", "wash": 1},
            {"op": "transfer", "src": 0, "sw": L([(0, 1)]), "dst": 0, "dw": L([(0, 0)]), "vols": S(1), "label": "underflow by 1", "wash": 1},
        ]
        progs.append(h)
    # the label of a rejected step is free text: characters with a meaning in format strings must not change the outcome
    prog("labels-with-format-characters", [
        {"op": "add", "lw": P, "wells": L([(0, 0)]), "vols": S(1), "label": "sample {i}"},                 # 10 + 1 > 10
        {"op": "remove", "lw": P, "wells": L([(1, 0)]), "vols": S(1), "label": "{}"},                      # 2 - 1 < 2
        {"op": "aspirate", "lw": P, "wells": L([(1, 0)]), "vols": S(1), "label": "{0} and %d %s"},
        {"op": "dispense", "lw": P, "wells": L([(0, 0)]), "vols": S(1), "label": "open { brace"},
        {"op": "dispense", "lw": P, "wells": L([(0, 0)]), "vols": S(1), "label": "close } brace %"},
        {"op": "distribute", "src": T, "col": 1, "dst": P, "dw": L([(0, 1)]), "vol": 1, "label": "{label!r:>10}"},   # column 2 is empty
        {"op": "distribute", "src": T, "col": 0, "dst": P, "dw": L([(0, 0)]), "vol": 1, "label": "%(x)s {"},          # A01 is full
        {"op": "add", "lw": P, "wells": L([(0, 1)]), "vols": S(1), "label": "fine {} %s"},
    ], wlmax=20)
    prog("worklist", [
        {"op": "dispense", "lw": P, "wells": L([(0, 1), (1, 1)]), "vols": L([5, 10]), "label": "fill"},   # both exactly to max
        {"op": "dispense", "lw": P, "wells": L([(1, 1)]), "vols": S(1), "label": None},                   # overflow
        {"op": "aspirate", "lw": P, "wells": L([(0, 1), (1, 1)]), "vols": L([8, 9]), "label": None},      # second: 10 - 9 = 1 < 2
        {"op": "transfer", "src": T, "sw": L([(0, 0), (1, 0)]), "dst": P, "dw": L([(1, 0), (1, 0)]), "vols": L([4, 5]), "label": "t", "wash": 1},  # 0+4+5 = 9 ok
        {"op": "transfer", "src": T, "sw": L([(2, 0)]), "dst": P, "dw": L([(1, 0)]), "vols": S(2), "label": "over", "wash": 1},  # 9 + 2 > 10
        {"op": "distribute", "src": T, "col": 0, "dst": P, "dw": L([(0, 2), (1, 2)]), "vol": 1, "label": "d"},   # trough 12-9-2(asp)=... judged by spec
        {"op": "distribute", "src": T, "col": 0, "dst": P, "dw": L([(0, 2), (1, 2)]), "vol": 5, "label": "d2"},
    ], wlmax=20)
    return progs


def fault_programs(dev):
    """One program per abort point of the multi-step operations (C03)."""
    progs = []
    P, T = 0, 1

    def lw():
        return [gen.mk_plate("plate", 2, 3, 1, 10, [6, 0, 3, 0, 0, 9]), gen.mk_trough("trough", 4, 2, 2, 40, [30, 5])]

    def prog(name, ops, **kw):
        h = _hdr(f"faults/{name}", dev, lw(), flags={"comp": True, "norm": False}, **kw)
        h["ops"] = ops
        progs.append(h)

    warm = {"op": "transfer", "src": T, "sw": L([(0, 0)]), "dst": P, "dw": L([(1, 0)]), "vols": S(4), "label": "warm up", "wash": 1}
    prog("transfer-underflow-2nd", [warm, {"op": "transfer", "src": P, "sw": L([(0, 0), (0, 1)]), "dst": P, "dw": L([(1, 1), (1, 1)]),
                                         "vols": L([2, 3]), "label": "u", "wash": 1, "pby": "source"}])       # A02 holds 3, min 1
    prog("transfer-overflow-2nd", [warm, {"op": "transfer", "src": T, "sw": L([(0, 0), (1, 0)]), "dst": P, "dw": L([(1, 1), (1, 2)]),
                                        "vols": L([3, 2]), "label": "o", "wash": "flush"}])                     # B03 holds 9, max 10
    prog("transfer-split-2nd-partition", [warm, {"op": "transfer", "src": T, "sw": L([(0, 0), (1, 0)]), "dst": P, "dw": L([(0, 1), (1, 1)]),
                                               "vols": L([9, 12]), "label": "split", "wash": 1}], wlmax=5)    # B02: 0 + 12 > 10 in a later partition
    prog("transfer-oversized-nosplit", [warm, {"op": "transfer", "src": T, "sw": L([(0, 0), (1, 0)]), "dst": P, "dw": L([(0, 1), (1, 1)]),
                                             "vols": L([2, 7]), "label": "big", "wash": 1}], wlmax=5, autosplit=False)
    prog("distribute-underflow", [warm, {"op": "distribute", "src": T, "col": 1, "dst": P, "dw": L([(0, 1), (1, 1), (0, 2)]), "vol": 2, "label": "du"}])  # 5 - 6 < 2
    prog("distribute-overflow-2nd", [warm, {"op": "distribute", "src": T, "col": 0, "dst": P, "dw": L([(0, 1), (1, 2)]), "vol": 2, "label": "do"}])      # B03 9 + 2 > 10
    prog("distribute-oversized", [warm, {"op": "distribute", "src": T, "col": 0, "dst": P, "dw": L([(0, 1)]), "vol": 6, "label": "dz"}], wlmax=5)
    prog("aspirate-underflow-2nd", [warm, {"op": "aspirate", "lw": P, "wells": L([(0, 0), (0, 1)]), "vols": L([2, 3]), "label": "a"}])
    prog("dispense-overflow-2nd", [warm, {"op": "dispense", "lw": P, "wells": L([(0, 1), (1, 2)]), "vols": L([2, 2]), "label": "d"}])
    prog("aspirate-oversized-2nd", [warm, {"op": "aspirate", "lw": T, "wells": L([(0, 0), (1, 0)]), "vols": L([3, 7]), "label": "a"}], wlmax=5)
    # one well with two volumes is not a valid call; if it were taken, records and book-keeping would part and a later step
    # that the twin accepts would overflow in the replay
    prog("one-well-two-volumes", [warm, {"op": "aspirate", "lw": P, "wells": S((0, 0)), "vols": L([2, 2]), "label": "a"},
                                  {"op": "dispense", "lw": P, "wells": L([(0, 0)]), "vols": S(7), "label": "6 + 7 > 10"},
                                  {"op": "dispense", "lw": P, "wells": S((0, 1)), "vols": L([3, 3]), "label": "d"},
                                  {"op": "aspirate", "lw": P, "wells": L([(0, 1)]), "vols": S(8), "label": "3 + 3 - 8 < 1"}], wlmax=10)
    prog("dispense-oversized", [warm, {"op": "dispense", "lw": T, "wells": L([(0, 0)]), "vols": S(6), "label": None}], wlmax=5)
    # two faults in one call: a limit violation at an earlier well and a step above the worklist's max_volume at a later one
    # (whichever is reported, no record may stay behind that the labware never accepted)
    prog("aspirate-underflow-then-oversized", [warm, {"op": "aspirate", "lw": P, "wells": L([(0, 1), (1, 2)]), "vols": L([4, 7]), "label": "a"},
                                               {"op": "aspirate", "lw": T, "wells": L([(0, 1), (1, 0)]), "vols": L([4, 7]), "label": "a"}], wlmax=5)
    prog("dispense-overflow-then-oversized", [warm, {"op": "dispense", "lw": P, "wells": L([(1, 2), (0, 1)]), "vols": L([2, 6]), "label": "d"},
                                              {"op": "dispense", "lw": P, "wells": L([(0, 0), (1, 2), (0, 1)]), "vols": L([1, 3, 8]), "label": "d"}], wlmax=5)
    # a chain inside one column of one plate whose middle well is full: the dispense into it is refused although the very
    # same round would take liquid out of it again (steps happen in the order of the records)
    prog("chain-through-a-full-well", [warm, {"op": "dispense", "lw": P, "wells": L([(1, 0)]), "vols": S(5), "label": "B01 holds 9"},
                                       {"op": "dispense", "lw": P, "wells": L([(1, 0)]), "vols": S(1), "label": "B01 is full now"},
                                       {"op": "transfer", "src": P, "sw": L([(0, 0), (1, 0)]), "dst": P, "dw": L([(1, 0), (0, 1)]), "vols": S(2),
                                        "label": "through B01", "wash": 1, "pby": "source"}])
    # large vessels: a limit must not be softened by a relative tolerance
    big = [gen.mk_plate("waste", 1, 2, 100000, 25000000, [24999000, 100500]), gen.mk_trough("res", 8, 1, 1000000, 250000000, [249999990])]
    for name, ops in [
        ("large-overflow", [{"op": "transfer", "src": 1, "sw": L([(0, 0)]), "dst": 0, "dw": L([(0, 0)]), "vols": S(1000), "label": "to the limit", "wash": 1},
                            {"op": "transfer", "src": 1, "sw": L([(1, 0)]), "dst": 0, "dw": L([(0, 0)]), "vols": S(2), "label": "2 beyond", "wash": 1}]),
        ("large-underflow", [{"op": "aspirate", "lw": 0, "wells": L([(0, 1)]), "vols": S(500), "label": "to min"},
                             {"op": "aspirate", "lw": 0, "wells": L([(0, 1)]), "vols": S(1), "label": "1 below min"}]),
        ("large-distribute", [{"op": "distribute", "src": 1, "col": 0, "dst": 0, "dw": L([(0, 0)]), "vol": 1000, "label": "fill"},
                              {"op": "distribute", "src": 1, "col": 0, "dst": 0, "dw": L([(0, 0)]), "vol": 3, "label": "3 beyond"}]),
    ]:
        h = _hdr(f"faults/{name}", dev, [dict(x) for x in big], wlmax=1000, flags={"comp": False, "norm": False})
        h["ops"] = ops
        progs.append(h)
    return progs


def shape_programs(dev):
    """Argument shapes on non-square geometries (C04)."""
    progs = []
    P, T = 0, 1

    def lw():
        return [gen.mk_plate("plate", 4, 6, 0, 500, [20] * 24), gen.mk_trough("trough", 5, 3, 0, 900, [300, 300, 0])]

    def prog(name, ops):
        h = _hdr(f"shapes/{name}", dev, lw(), wlmax=950, flags={"comp": False, "norm": False})
        h["ops"] = ops
        h["pres"] = [{"wells": "ndarray", "vols": "ndarray"}, {}, {"wells": "ndarray", "vols": "list"}, {"wells": "tuple", "vols": "tuple"}] * 4
        progs.append(h)

    full = [[(r, c) for c in range(6)] for r in range(4)]
    vfull = [[r * 6 + c + 1 for c in range(6)] for r in range(4)]
    sl = [[(r, c) for c in (1, 2, 4)] for r in (0, 3)]
    tfull = [[(r, c) for c in range(3)] for r in range(5)]
    prog("full-plate", [
        {"op": "add", "lw": P, "wells": M(full), "vols": M(vfull), "label": "ramp"},
        {"op": "remove", "lw": P, "wells": M(sl), "vols": M([[1, 2, 3], [4, 5, 6]]), "label": "slice"},
        {"op": "remove", "lw": P, "wells": M(sl), "vols": S(2), "label": "slice scalar"},
        {"op": "add", "lw": P, "wells": M(sl), "vols": L([1, 2, 3, 4, 5, 6]), "label": "2d wells, flat volumes"},
        {"op": "aspirate", "lw": P, "wells": M(full), "vols": M(vfull), "label": "asp ramp"},
        {"op": "dispense", "lw": P, "wells": M([[(0, 0), (0, 1)]]), "vols": M([[7, 9]]), "label": "row"},
        {"op": "dispense", "lw": P, "wells": M([[(0, 0)], [(1, 0)], [(2, 0)]]), "vols": M([[1], [2], [3]]), "label": "col"},
    ])
    prog("trough-alias", [
        {"op": "remove", "lw": T, "wells": M(tfull), "vols": S(10), "label": "all virtual wells"},    # each column charged 5 times
        {"op": "add", "lw": T, "wells": M(tfull), "vols": M([[1, 2, 3]] * 5), "label": "2d on trough"},
        {"op": "remove", "lw": T, "wells": M(tfull), "vols": S(2), "label": "the same volume through every virtual well (5 x 2 per column)"},
        {"op": "add", "lw": T, "wells": M(tfull), "vols": S(3), "label": "and back (5 x 3 per column)"},
        {"op": "dispense", "lw": T, "wells": M(tfull), "vols": S(1), "label": "through the worklist"},
        {"op": "aspirate", "lw": T, "wells": L([(4, 0), (0, 0), (2, 1), (4, 0)]), "vols": L([5, 6, 7, 8]), "label": None},
        {"op": "dispense", "lw": T, "wells": L([(3, 2), (1, 2)]), "vols": L([11, 13]), "label": None},
        {"op": "transfer", "src": T, "sw": M([[(0, 0), (0, 1)], [(1, 0), (1, 1)], [(2, 0), (2, 1)]]), "dst": P,
         "dw": M([[(0, 0), (0, 5)], [(1, 0), (1, 5)], [(2, 0), (2, 5)]]), "vols": M([[1, 4], [2, 5], [3, 6]]), "label": "2d transfer", "wash": 1},
        {"op": "add", "lw": P, "wells": L([(0, 0), (0, 0), (0, 0)]), "vols": L([1, 2, 3]), "label": "thrice"},
    ])
    # 2-D well tables whose corners are those of a block but whose interior is permuted or repeated (fancy indexing)
    perm = [[(r, c) for c in (0, 2, 1, 3)] for r in range(4)]
    rept = [[(r, c) for c in (0, 1, 1, 3)] for r in range(3)]
    prog("fancy-tables", [
        {"op": "add", "lw": P, "wells": M(perm), "vols": M([[1, 2, 3, 4], [5, 6, 7, 8], [9, 10, 11, 12], [13, 14, 15, 16]]), "label": "columns 1 3 2 4"},
        {"op": "remove", "lw": P, "wells": M(rept), "vols": M([[1, 2, 3, 4], [1, 2, 3, 4], [1, 2, 3, 4]]), "label": "column 2 twice"},
        {"op": "add", "lw": P, "wells": M([[(3, 0), (0, 5)], [(0, 0), (3, 5)]]), "vols": M([[1, 2], [3, 4]]), "label": "the four corners, crossed"},
        {"op": "dispense", "lw": P, "wells": M(perm), "vols": M([[1, 2, 3, 4]] * 4), "label": "through the worklist"},
    ])
    prog("broadcast", [
        {"op": "transfer", "src": T, "sw": L([(3, 1)]), "dst": P, "dw": L([(0, 0)]), "vols": L([10, 20, 15]), "label": "one source, one destination, three volumes", "wash": 1},
        {"op": "transfer", "src": T, "sw": S((3, 1)), "dst": P, "dw": S((1, 0)), "vols": L([1, 2]), "label": "scalars and two volumes", "wash": "reuse"},
        {"op": "transfer", "src": T, "sw": L([(0, 0)]), "dst": P, "dw": L([(0, 1), (1, 1), (2, 1)]), "vols": S(4), "label": "one to many", "wash": 1},
        {"op": "transfer", "src": P, "sw": L([(0, 1), (1, 1), (2, 1)]), "dst": T, "dw": L([(2, 2)]), "vols": L([1, 2, 3]), "label": "many to one", "wash": 1},
        {"op": "transfer", "src": T, "sw": L([]), "dst": P, "dw": L([]), "vols": S(5), "label": "no wells, one volume", "wash": 1},
        {"op": "transfer", "src": T, "sw": L([(0, 0)]), "dst": P, "dw": L([]), "vols": S(5), "label": "no destination", "wash": 1},
        {"op": "transfer", "src": T, "sw": L([]), "dst": P, "dw": L([(0, 0)]), "vols": L([]), "label": "no source", "wash": 1},
        {"op": "transfer", "src": T, "sw": L([(0, 0)]), "dst": P, "dw": L([(0, 0)]), "vols": L([]), "label": "no volumes", "wash": 1},
        {"op": "transfer", "src": T, "sw": L([(0, 0)]), "dst": P, "dw": L([(3, 5)]), "vols": S(1), "label": "fine", "wash": 1},
        # one volume for several wells, spelled as a list (or a 1 x 1 table) with one entry
        {"op": "dispense", "lw": P, "wells": L([(0, 2), (1, 2), (2, 3)]), "vols": L([2]), "label": "one-element list, three wells"},
        {"op": "aspirate", "lw": P, "wells": L([(0, 2), (1, 2), (2, 3)]), "vols": L([1]), "label": "and back"},
        {"op": "add", "lw": P, "wells": L([(0, 3), (1, 3)]), "vols": M([[3]]), "label": "1 x 1 table"},
        {"op": "remove", "lw": P, "wells": M([[(0, 3)], [(1, 3)]]), "vols": L([1]), "label": "column table, one-element list"},
        {"op": "dispense", "lw": T, "wells": L([(0, 0), (1, 0), (2, 1)]), "vols": L([2]), "label": "trough"},
        {"op": "transfer", "src": T, "sw": L([(0, 0), (1, 0)]), "dst": P, "dw": L([(2, 4), (3, 4)]), "vols": L([3]), "label": "transfer, one-element list", "wash": 1},
    ])
    prog("mismatch", [
        {"op": "add", "lw": P, "wells": L([(0, 0), (1, 0), (2, 0)]), "vols": L([1, 2]), "label": "too few"},
        {"op": "remove", "lw": P, "wells": L([(0, 0), (1, 0)]), "vols": L([1, 2, 3]), "label": "too many"},
        {"op": "add", "lw": P, "wells": M([[(0, 0), (0, 1)], [(1, 0), (1, 1)]]), "vols": L([1, 2, 3]), "label": "2x2 vs 3"},
        {"op": "aspirate", "lw": P, "wells": L([(0, 0), (1, 0), (2, 0)]), "vols": L([1, 2]), "label": "asp too few"},
        {"op": "aspirate", "lw": P, "wells": S((0, 0)), "vols": L([1, 1]), "label": "one well, two volumes"},
        {"op": "dispense", "lw": P, "wells": L([(0, 1)]), "vols": L([1, 2, 1]), "label": "one well listed once, three volumes"},
        {"op": "add", "lw": P, "wells": S((1, 1)), "vols": L([1, 1]), "label": "one well, two volumes"},
        {"op": "dispense", "lw": P, "wells": L([(0, 1)]), "vols": S(25), "label": "a later step that fits only if nothing was booked twice"},
    ])
    return progs


def naming_programs():
    """Default / partial / explicit component names for many geometries (C05 naming rule, C20 initial state)."""
    progs = []
    k = 0
    for (R, C) in [(1, 1), (2, 1), (2, 3), (3, 2), (8, 12), (5, 7)]:
        n = R * C
        for pattern in ("default", "partial", "explicit", "shared", "partial-none", "like-default", "blanks"):
            init = [((i * 7) % 5) for i in range(n)]
            if pattern == "default":
                names = None
            elif pattern in ("partial", "partial-none"):
                names = [(f"n{i}" if (v > 0 and i % 2 == 0) else None) for i, v in enumerate(init)]
            elif pattern == "explicit":
                names = [(f"n{i}" if v > 0 else None) for i, v in enumerate(init)]
            elif pattern == "blanks":
                # names are taken as they are given: blanks at the ends belong to the name ("buffer" and "buffer " are two liquids)
                pool = ["buffer", "buffer ", " buffer", "two words", "tab\tinside", " "]
                names = [(pool[i % len(pool)] if v > 0 else None) for i, v in enumerate(init)]
            elif pattern == "like-default":
                # the first filled well is given the name that the LAST filled well gets by default
                filled = [i for i, v in enumerate(init) if v > 0]
                names = [None] * n
                if len(filled) >= 2 and (R > 1 or n == 1):
                    j = filled[-1]
                    names[filled[0]] = "stocks." + "ABCDEFGHIJKLMNOPQRSTUVWXYZ"[j % R] + f"{j // R + 1:02d}"
            else:
                names = [("same" if v > 0 else None) for v in init]
            h = _hdr(f"naming/plate{R}x{C}-{pattern}", "evo", [gen.mk_plate("stocks", R, C, 0, 10, init, names)])
            if pattern == "partial-none":
                # the unnamed filled wells are listed in the dict with the value None (a table with missing names)
                h["lw"][0]["none_keys"] = True
            h["ops"] = [] if n < 2 else [
                {"op": "transfer", "src": 0, "sw": L([(0, 0)] if R == 1 else [(1, 0)]), "dst": 0, "dw": L([(0, C - 1)]), "vols": S(1), "label": "pool", "wash": 1}]
            progs.append(h)
    for (V, C) in [(1, 1), (4, 1), (1, 3), (8, 4), (16, 2)]:
        for pattern in ("default", "partial", "explicit", "blanks"):
            init = [((i * 3) % 4) * 5 for i in range(C)]
            if C == 1:
                init = [5]
            if pattern == "default":
                names = None
            elif pattern == "partial":
                names = [("water" if (v > 0 and i % 2 == 0) else None) for i, v in enumerate(init)]
            elif pattern == "blanks":
                names = [([" water", "water ", "water"][i % 3] if v > 0 else None) for i, v in enumerate(init)]
            else:
                names = [(f"liq{i}" if v > 0 else None) for i, v in enumerate(init)]
            h = _hdr(f"naming/trough{V}x{C}-{pattern}", "fluent", [gen.mk_trough("media", V, C, 0, 50, init, names)])
            h["ops"] = []
            progs.append(h)
    return progs


def permutation_programs(dev, n):
    """Every permutation of a triple list whose sort order differs from the input order in both lists (C07, C18)."""
    import itertools

    progs = []
    P, T = 0, 1
    src = [(2, 3), (0, 0), (1, 1), (0, 3)][:n]
    dst = [(0, 2), (2, 0), (1, 2), (0, 0)][:n]
    vol = [7, 2, 12, 3][:n]
    for pi, perm in enumerate(itertools.permutations(range(n))):
        for pby in ("source", "destination"):
            h = _hdr(f"perm/{n}-{pi}-{pby}", dev, base_labware(), wlmax=5, flags={"comp": False, "norm": False})
            # first fill the plate so that every source well can afford its volume
            h["ops"] = [
                {"op": "dispense", "lw": P, "wells": L(src), "vols": S(13), "label": None},
                {"op": "transfer", "src": P, "sw": L([src[i] for i in perm]), "dst": P, "dw": L([dst[i] for i in perm]),
                 "vols": L([vol[i] for i in perm]), "label": f"perm {pi}", "wash": 1, "pby": pby},
            ]
            progs.append(h)
    return progs


def reject_programs(dev):
    """Malformed transfer arguments must be rejected, nothing pipetted (C07 iv)."""
    P, T = 0, 1
    progs = []
    cases = [
        ("len-2-3", L([(0, 0), (1, 0)]), L([(0, 1), (1, 1), (2, 1)]), L([1, 1])),
        ("len-vols", L([(0, 0), (1, 0)]), L([(0, 1), (1, 1)]), L([1, 1, 1])),
        ("len-3-2-3", L([(0, 0), (1, 0), (2, 0)]), L([(0, 1), (1, 1)]), L([1, 1, 1])),
        ("negative", L([(0, 0), (0, 0)]), L([(0, 1), (1, 1)]), L([-1, 2])),
        ("negative-scalar", L([(0, 0)]), L([(0, 1)]), S(-3)),
    ]
    # tables against lists: sizes that differ are incompatible even where numpy could broadcast the shapes
    tab = M([[(0, 0), (0, 1), (0, 2)], [(1, 0), (1, 1), (1, 2)]])
    tab2 = M([[(2, 0), (2, 1), (2, 2)], [(0, 3), (1, 3), (2, 3)]])
    cases += [
        ("vols-2-of-4", L([(0, 0), (1, 0), (0, 1), (1, 1)]), L([(0, 2), (1, 2), (0, 3), (1, 3)]), L([1, 2])),
        ("vols-3-of-6", tab, tab2, L([1, 2, 3])),
        ("table-2x3-list-3", tab, tab2, L([1, 1, 1])),
        ("table-2x3-list-2", tab, tab2, L([1, 1])),
        ("table-2x3-column-2x1", tab, M([[(2, 0)], [(2, 1)]]), S(1)),
        ("table-2x3-row-1x3", tab, M([[(2, 0), (2, 1), (2, 2)]]), S(1)),
        ("table-2x3-table-2x1-volumes", tab, tab2, M([[1], [1]])),
    ]
    for name, sw, dw, v in cases:
        h = _hdr(f"reject/{name}", dev, base_labware(), flags={"comp": False, "norm": False})
        h["ops"] = [{"op": "transfer", "src": P, "sw": sw, "dst": P, "dw": dw, "vols": v, "label": "bad", "wash": 1},
                    {"op": "transfer", "src": P, "sw": L([(0, 0)]), "dst": P, "dw": L([(0, 2)]), "vols": S(1), "label": "fine", "wash": 1}]
        progs.append(h)
    h = _hdr("reject/mode", dev, base_labware(), flags={"comp": False, "norm": False})
    h["ops"] = [{"op": "transfer", "src": P, "sw": L([(0, 0)]), "dst": P, "dw": L([(0, 2)]), "vols": S(1), "label": "m", "wash": 1, "pby": "column"}]
    progs.append(h)
    return progs


def history_programs(dev, same_name=False):
    """Histories with zero moves, same-labware operations, split volumes and all kinds of labels (C11)."""
    P, T, Sx = 0, 1, 2
    progs = []
    if same_name:
        # two plates and two troughs that are different objects with equal names: only the histories are judged
        lws = [gen.mk_plate("plate", 3, 4, 0, 30, [6, 0, 0, 0, 9, 0, 0, 0, 0, 0, 0, 12]), gen.mk_trough("trough", 4, 3, 2, 60, [50, 40, 0]),
               gen.mk_plate("plate", 3, 4, 0, 30, [0] * 12), gen.mk_trough("trough", 4, 3, 2, 60, [20, 0, 0])]
        h = _hdr("history/same-name", dev, lws, wlmax=5, flags={"comp": False, "norm": False, "fullhist": True, "records": False, "robot": False})
        h["ops"] = [
            {"op": "add", "lw": 0, "wells": L([(0, 1)]), "vols": S(3), "label": "one"},
            {"op": "add", "lw": 0, "wells": L([(1, 1)]), "vols": S(4), "label": "two"},
            {"op": "add", "lw": 2, "wells": L([(1, 1)]), "vols": S(1), "label": "other plate"},
            {"op": "transfer", "src": 0, "sw": L([(0, 0), (1, 1)]), "dst": 2, "dw": L([(0, 0), (0, 1)]), "vols": L([2, 3]), "label": "between namesakes", "wash": 1},
            {"op": "transfer", "src": 0, "sw": L([(1, 1)]), "dst": 2, "dw": L([(2, 2)]), "vols": S(1), "label": "again", "wash": "reuse"},
            {"op": "distribute", "src": 1, "col": 0, "dst": 3, "dw": L([(0, 1), (0, 2)]), "vol": 3, "label": "trough to its namesake"},
            {"op": "transfer", "src": 1, "sw": L([(0, 0)]), "dst": 3, "dw": L([(1, 0)]), "vols": S(12), "label": "split", "wash": 1},
        ]
        # ... and two namesakes of equal geometry that hold the very same volumes once the transfer is done
        lw2 = [gen.mk_plate("replicate", 2, 2, 0, 30, [10, 10, 10, 10]), gen.mk_trough("trough", 4, 3, 2, 60, [50, 40, 0]), gen.mk_plate("replicate", 2, 2, 0, 30, [0, 0, 0, 0])]
        h2 = _hdr("history/same-name-same-volumes", dev, lw2, wlmax=5, flags={"comp": False, "norm": False, "fullhist": True, "records": False, "robot": False})
        h2["ops"] = [
            {"op": "add", "lw": 0, "wells": L([(0, 0)]), "vols": S(0), "label": "prepared"},
            {"op": "transfer", "src": 0, "sw": L([(0, 0), (1, 0), (0, 1), (1, 1)]), "dst": 2, "dw": L([(0, 0), (1, 0), (0, 1), (1, 1)]), "vols": S(5),
             "label": "split every well half and half", "wash": 1},
            {"op": "transfer", "src": 0, "sw": L([(0, 0)]), "dst": 2, "dw": L([(0, 0)]), "vols": S(0), "label": "nothing", "wash": 1},
        ]
        return [h, h2]
    ops = [
        {"op": "add", "lw": P, "wells": L([(0, 1), (1, 1)]), "vols": L([3, 4]), "label": "added"},
        {"op": "remove", "lw": P, "wells": L([(0, 1)]), "vols": S(1), "label": None},
        {"op": "aspirate", "lw": T, "wells": L([(0, 0), (1, 0)]), "vols": L([2, 0]), "label": "asp"},
        {"op": "dispense", "lw": P, "wells": L([(2, 2)]), "vols": S(0), "label": ""},
        {"op": "transfer", "src": T, "sw": L([(0, 0), (1, 1)]), "dst": P, "dw": L([(0, 2), (1, 2)]), "vols": L([0, 0]), "label": "moves nothing", "wash": 1},
        {"op": "transfer", "src": T, "sw": L([(0, 0), (1, 1), (2, 0)]), "dst": P, "dw": L([(0, 2), (1, 2), (2, 2)]), "vols": L([0, 12, 3]), "label": "split", "wash": 1},
        {"op": "transfer", "src": P, "sw": L([(0, 0), (1, 1)]), "dst": P, "dw": L([(2, 0), (2, 1)]), "vols": L([2, 1]), "label": "within", "wash": "reuse"},
        {"op": "transfer", "src": P, "sw": L([(1, 2)]), "dst": P, "dw": L([(1, 2)]), "vols": S(11), "label": None, "wash": "flush"},
        {"op": "distribute", "src": T, "col": 0, "dst": P, "dw": L([(0, 3), (2, 3)]), "vol": 2, "label": "dist"},
        {"op": "distribute", "src": T, "col": 1, "dst": T, "dw": L([(0, 2)]), "vol": 3, "label": ""},
        {"op": "transfer", "src": T, "sw": L([(3, 0)]), "dst": Sx, "dw": L([(0, 1)]), "vols": S(0), "label": None, "wash": 1},
        {"op": "transfer", "src": T, "sw": L([(3, 0)]), "dst": Sx, "dw": L([(0, 1)]), "vols": S(6), "label": "two\nlines", "wash": 1},
    ]
    h = _hdr("history/long", dev, base_labware(), wlmax=5, flags={"comp": False, "norm": False, "fullhist": True})
    h["ops"] = ops
    progs.append(h)
    # labels that merely resemble the keywords of condense_log ("first" / "last" themselves are not generated, see DESIGN)
    h = _hdr("history/keyword-like-labels", dev, base_labware(), wlmax=5, flags={"comp": False, "norm": False, "fullhist": True})
    h["ops"] = [{"op": "transfer", "src": T, "sw": L([(0, 0)]), "dst": P, "dw": L([(0, 1)]), "vols": S(2), "label": lab, "wash": 1}
                for lab in ("Last", "FIRST", " last ", "last one", "first", "lastly", "First step", "LAST")
                if lab != "first"] + [
               {"op": "distribute", "src": T, "col": 0, "dst": P, "dw": L([(1, 1), (2, 1)]), "vol": 1, "label": "Last"},
               {"op": "aspirate", "lw": P, "wells": L([(0, 1)]), "vols": S(1), "label": "First"}]
    progs.append(h)
    # successful operations that follow rejected ones: a split transfer that fails at a later sub-step, a multi-well
    # add / dispense refused at its second well (the first is booked, nothing is filed), then operations that move
    # little or nothing - each of them files exactly one entry with its own label and the volumes as they are
    h = _hdr("history/after-rejections", dev, base_labware(), wlmax=5, flags={"comp": False, "norm": False, "fullhist": True})
    h["ops"] = [
        {"op": "transfer", "src": P, "sw": L([(0, 0), (1, 1)]), "dst": T, "dw": L([(0, 2), (1, 2)]), "vols": L([6, 12]), "label": "too much", "wash": 1},
        {"op": "transfer", "src": Sx, "sw": L([(0, 0)]), "dst": P, "dw": L([(0, 2)]), "vols": S(2), "label": "small", "wash": 1},
        {"op": "transfer", "src": T, "sw": L([(0, 0)]), "dst": P, "dw": L([(2, 2)]), "vols": S(12), "label": None, "wash": 1},
        {"op": "add", "lw": P, "wells": L([(0, 3), (2, 3)]), "vols": L([5, 25]), "label": "second well overflows"},
        {"op": "add", "lw": P, "wells": L([(0, 2)]), "vols": S(0), "label": "nothing"},
        {"op": "dispense", "lw": P, "wells": L([(1, 3), (2, 3)]), "vols": L([4, 25]), "label": "again the second"},
        {"op": "aspirate", "lw": P, "wells": L([(0, 2), (2, 2)]), "vols": L([0, 0]), "label": "zero"},
        {"op": "remove", "lw": P, "wells": L([(1, 3), (1, 0)]), "vols": L([1, 3]), "label": "second well underflows"},
        {"op": "transfer", "src": P, "sw": L([(0, 2)]), "dst": Sx, "dw": L([(0, 1)]), "vols": S(0), "label": "moves nothing", "wash": 1},
        {"op": "remove", "lw": P, "wells": L([(2, 2)]), "vols": S(0), "label": None},
        {"op": "transfer", "src": T, "sw": L([(1, 1), (2, 0)]), "dst": P, "dw": L([(1, 2), (2, 1)]), "vols": L([4, 11]), "label": "", "wash": 1},
        {"op": "distribute", "src": T, "col": 0, "dst": P, "dw": L([(0, 1), (1, 1)]), "vol": 25, "label": "second destination overflows"},
        {"op": "distribute", "src": T, "col": 1, "dst": P, "dw": L([(0, 1)]), "vol": 1, "label": "fine"},
    ]
    progs.append(h)
    # the history API used directly: log() and condense_log() with a given label, "first", "last" and the default
    h = _hdr("history/api", dev, base_labware(), wlmax=5, flags={"comp": False, "norm": False, "fullhist": True})
    h["ops"] = [
        {"op": "add", "lw": P, "wells": L([(0, 1)]), "vols": S(3), "label": "one"},
        {"op": "add", "lw": P, "wells": L([(1, 1)]), "vols": S(4), "label": "two"},
        {"op": "remove", "lw": P, "wells": L([(0, 1)]), "vols": S(1), "label": None},
        {"op": "log", "lw": P, "label": "checkpoint"},
        {"op": "condense", "lw": P, "n": 2, "label": "last two"},
        {"op": "add", "lw": P, "wells": L([(2, 1)]), "vols": S(2), "label": "three"},
        {"op": "add", "lw": P, "wells": L([(2, 2)]), "vols": S(2), "label": "four"},
        {"op": "condense", "lw": P, "n": 3, "label": "first"},
        {"op": "add", "lw": T, "wells": L([(0, 2)]), "vols": S(5), "label": "t1"},
        {"op": "remove", "lw": T, "wells": L([(1, 2)]), "vols": S(2), "label": "t2"},
        {"op": "condense", "lw": T, "n": 2, "label": "last"},
        {"op": "log", "lw": T, "label": None},
        {"op": "condense", "lw": T, "n": 1},
        {"op": "condense", "lw": T, "n": 3, "label": None},
    ]
    progs.append(h)
    return progs


def base_programs():
    """The generic BaseWorklist refuses operations that need device specific numbering (C16)."""
    P, T = 0, 1
    h = _hdr("base/refuse", "base", base_labware(), flags={"comp": False, "norm": False, "robot": False})
    h["ops"] = [
        {"op": "aspirate", "lw": P, "wells": L([(0, 0)]), "vols": S(0), "label": None},
        {"op": "transfer", "src": T, "sw": L([(0, 0)]), "dst": P, "dw": L([(0, 1)]), "vols": S(2), "label": "t", "wash": 1},
        {"op": "distribute", "src": T, "col": 0, "dst": P, "dw": L([(0, 1), (1, 1)]), "vol": 2, "label": "d"},
        {"op": "aspirate", "lw": P, "wells": L([(0, 0)]), "vols": S(2), "label": None},
        {"op": "dispense", "lw": P, "wells": L([(0, 1)]), "vols": S(2), "label": None},
        # every well of the destination, in plate order and as the 2-D table itself: still needs device specific numbering
        {"op": "distribute", "src": T, "col": 0, "dst": P, "dw": L([(r, c) for c in range(4) for r in range(3)]), "vol": 1, "label": "whole plate"},
        {"op": "distribute", "src": T, "col": 0, "dst": P, "dw": M([[(r, c) for c in range(4)] for r in range(3)]), "vol": 1, "label": "whole plate, table"},
        {"op": "transfer", "src": T, "sw": L([(r, 0) for r in range(3)]), "dst": P, "dw": L([(r, 0) for r in range(3)]), "vols": S(1), "label": "whole column", "wash": 1},
    ]
    return [h]


def split_programs(dev):
    """Transfers around multiples of max_volume, non-integer microlitre max_volume, auto_split on/off (C06)."""
    progs = []
    # more than 7158278 microlitres (the largest volume a single record can carry) in one automatically split transfer
    big = [gen.mk_plate("tank", 1, 2, 0, 20000, [16000, 0]), gen.mk_trough("vat", 2, 1, 0, 20000, [16000])]
    h = _hdr("split/beyond-the-record-limit", dev, big, wlmax=900, unit=Fraction(2**10), flags={"comp": False, "norm": False, "records": False, "robot": False})
    h["ops"] = [{"op": "transfer", "src": 1, "sw": L([(0, 0)]), "dst": 0, "dw": L([(0, 1)]), "vols": S(7200), "label": "7.4 litres in steps of 0.9 litres", "wash": "reuse"},
                {"op": "transfer", "src": 1, "sw": L([(1, 0)]), "dst": 0, "dw": L([(0, 1)]), "vols": S(6991), "label": "just above the limit", "wash": "reuse"}]
    progs.append(h)
    P, T = 0, 1

    def lw(maxv):
        return [gen.mk_plate("plate", 2, 3, 0, maxv, [0] * 6), gen.mk_trough("trough", 2, 2, 0, 40 * maxv, [20 * maxv, 20 * maxv])]

    # unit 1/2 microlitre: max_volume 1901 units = 950.5 microlitres (the failing input of finding F-01)
    for name, unit, M, vols in [
        ("950.5", Fraction(1, 2), 1901, [3802, 1901, 1902, 5703, 1900, 3803]),
        ("quarter", Fraction(1, 4), 3, [3, 4, 5, 6, 7, 12]),
        ("integer", Fraction(1), 950, [950, 951, 1900, 1901, 2850, 0]),
        ("halfint", Fraction(1, 2), 5, [5, 6, 10, 11, 15, 16]),
        ("intmax-fractional", Fraction(1, 4), 8, [9, 17, 33, 8, 16, 35]),      # max_volume 2 uL, volumes 2.25, 4.25, 8.25 ...
        ("intmax-half", Fraction(1, 2), 1900, [1901, 3801, 5703, 1900, 3800, 2001]),  # max_volume 950 uL, volumes 950.5, 1900.5, ...
    ]:
        for pby in ("source", "destination"):
            h = _hdr(f"split/{name}-{pby}", dev, lw(20 * M), wlmax=M, unit=unit, flags={"comp": False, "norm": False})
            h["ops"] = [
                {"op": "transfer", "src": T, "sw": L([(0, 0), (1, 0), (0, 1), (1, 1), (0, 0), (1, 1)]), "dst": P,
                 "dw": L([(0, 0), (1, 0), (0, 1), (1, 1), (0, 2), (1, 2)]), "vols": L(vols), "label": "split", "wash": 1, "pby": pby},
                {"op": "transfer", "src": P, "sw": L([(0, 0)]), "dst": P, "dw": L([(1, 2)]), "vols": S(vols[0] // 2), "label": None, "wash": "flush"},
            ]
            progs.append(h)
        h = _hdr(f"split/{name}-nosplit", dev, lw(20 * M), wlmax=M, unit=unit, autosplit=False, flags={"comp": False, "norm": False})
        h["ops"] = [
            {"op": "transfer", "src": T, "sw": L([(0, 0), (1, 0)]), "dst": P, "dw": L([(0, 0), (1, 0)]), "vols": L([M, M - 1]), "label": "fits", "wash": 1},
            {"op": "transfer", "src": T, "sw": L([(0, 0), (1, 0)]), "dst": P, "dw": L([(0, 1), (1, 1)]), "vols": L([1, M + 1]), "label": "too big", "wash": 1},
        ]
        progs.append(h)
        h = _hdr(f"split/{name}-multidisp", dev, lw(20 * M), wlmax=M, unit=unit, flags={"comp": False, "norm": False})
        h["ops"] = [
            {"op": "distribute", "src": T, "col": 0, "dst": P, "dw": L([(0, 0), (1, 0), (0, 1)]), "vol": max(1, M // 3), "md": md, "label": "md"}
            for md in (1, 2, 3, 4, 12)
        ] + [
            # volumes just above max_volume / k: one dispense less fits than a rounded ratio suggests
            {"op": "distribute", "src": T, "col": 0, "dst": P, "dw": L([(0, 0), (1, 0)]), "vol": M // kk + 1, "md": kk + 3, "label": f"just above 1/{kk}"}
            for kk in (2, 3, 4) if M // kk + 1 <= M
        ] + [{"op": "distribute", "src": T, "col": 1, "dst": P, "dw": L([(0, 2)]), "vol": M, "md": 5, "label": "full"},
             {"op": "distribute", "src": T, "col": 1, "dst": P, "dw": L([(1, 2)]), "vol": M + 1, "md": 1, "label": "too big"}]
        progs.append(h)
    return progs


def tip_programs(dev):
    """Tip keyword through aspirate / dispense / transfer: both records of a pair carry the same mask (C10)."""
    progs = []
    P, T = 0, 1
    tips = [
        {"k": "one", "s": ["int", 3]},
        {"k": "one", "s": ["tip", 8]},
        {"k": "one", "s": ["any"]},
        {"k": "coll", "x": [["int", 1], ["tip", 1], ["int", 4]]},
        {"k": "coll", "x": [["tip", 8], ["int", 2], ["tip", 2], ["int", 8]], "present": "tuple"},
        {"k": "coll", "x": [["int", n] for n in range(1, 9)]},
        # as many tips as wells in the multi-well calls below (a collection is ONE selection, not one tip per well)
        {"k": "coll", "x": [["int", 3], ["int", 5]]},
        {"k": "coll", "x": [["tip", 2], ["int", 7]], "present": "tuple"},
        {"k": "coll", "x": [["int", 6], ["tip", 1], ["int", 2]]},
    ]
    bad = [{"k": "one", "s": ["int", 0]}, {"k": "one", "s": ["int", 9]}, {"k": "coll", "x": [["int", 1], ["any"]]},
           {"k": "one", "s": ["bad", "float"]}, {"k": "coll", "x": [["bad", "str"]]}]
    for i, t in enumerate(tips + bad):
        h = _hdr(f"tips/{i}", dev, base_labware(), flags={"comp": False, "norm": False})
        h["ops"] = [
            {"op": "transfer", "src": T, "sw": L([(0, 0), (1, 0)]), "dst": P, "dw": L([(0, 1), (1, 1)]), "vols": L([4, 11]),
             "label": "tips", "wash": 1, "kw": {"tip": t, "lc": "Water"}},
            {"op": "transfer", "src": T, "sw": L([(0, 0), (1, 1), (2, 0)]), "dst": P, "dw": L([(0, 2), (1, 0), (2, 3)]), "vols": L([2, 7, 1]),
             "label": "three column groups", "wash": "reuse", "kw": {"tip": t}},
            {"op": "aspirate", "lw": P, "wells": L([(0, 0), (0, 1)]), "vols": L([1, 2]), "label": None, "kw": {"tip": t}},
            {"op": "dispense", "lw": P, "wells": L([(2, 2)]), "vols": S(3), "label": None, "kw": {"tip": t}},
            {"op": "dispense", "lw": P, "wells": L([(0, 3), (1, 3), (2, 3)]), "vols": L([1, 2, 1]), "label": "three wells", "kw": {"tip": t}},
        ]
        progs.append(h)
    return progs


def kwarg_programs(dev):
    """Keyword pass-through of aspirate / dispense / transfer and the text arguments of distribute,
    valid and invalid, one field at a time (C09)."""
    progs = []
    P, T = 0, 1
    good = {"lc": "Water_FD_AspZmax-1", "rackid": "0123456789", "racktype": "96 Well Microplate", "tube": "tube-7", "frt": "forced"}
    bads = {"lc": "a;b", "rackid": "x" * 33, "racktype": "ty;pe", "tube": "t;1", "frt": "y" * 40}
    cases = [("all-good", dict(good))] + [(f"bad-{k}", {k: v}) for k, v in bads.items()] + [(f"good-{k}", {k: v}) for k, v in good.items()]
    cases.append(("limit-32", {"rackid": "i" * 32, "racktype": "t" * 32, "frt": "f" * 32, "lc": "l" * 40, "tube": "u" * 40}))
    for name, kw in cases:
        h = _hdr(f"kwargs/{name}", dev, base_labware(), flags={"comp": False, "norm": False})
        h["ops"] = [
            {"op": "transfer", "src": T, "sw": L([(0, 0), (1, 0)]), "dst": P, "dw": L([(0, 1), (1, 1)]), "vols": L([4, 11]), "label": "kw", "wash": 1, "kw": kw},
            {"op": "aspirate", "lw": P, "wells": L([(0, 0), (0, 1)]), "vols": L([1, 2]), "label": "a", "kw": kw},
            {"op": "dispense", "lw": P, "wells": L([(2, 2)]), "vols": S(3), "label": None, "kw": kw},
            # everything at once: label, compositions, keyword arguments, several wells
            {"op": "dispense", "lw": P, "wells": L([(0, 3), (1, 3)]), "vols": L([2, 3]), "label": "all together", "kw": kw,
             "comps": [{"dye": (1, 1)}, {"dye": (1, 2), "water": (1, 2)}]},
            {"op": "aspirate", "lw": P, "wells": L([(0, 3), (1, 3)]), "vols": L([2, 3]), "label": "take it all back", "kw": kw},
            {"op": "dispense", "lw": P, "wells": L([(0, 3), (1, 3)]), "vols": L([1, 1]), "label": "refill", "kw": kw, "comps": [{"salt": (1, 1)}, {"salt": (1, 1)}]},
        ]
        progs.append(h)
    for name, fld, val in [("lc", "lc", "a;b"), ("sid", "sid", "x" * 33), ("stype", "stype", "s;t"), ("did", "did", ";"), ("dtype", "dtype", "d" * 33),
                           ("ok", "lc", "Water")]:
        h = _hdr(f"kwargs/dist-{name}", dev, base_labware(), flags={"comp": False, "norm": False})
        op = {"op": "distribute", "src": T, "col": 0, "dst": P, "dw": L([(0, 1), (1, 1)]), "vol": 2, "label": "d"}
        op[fld] = val
        h["ops"] = [op, {"op": "distribute", "src": P, "col": 0, "dst": P, "dw": L([(0, 2)]), "vol": 1, "label": "not a trough"},
                    {"op": "distribute", "src": T, "col": 1, "dst": P, "dw": L([(0, 2)]), "vol": 1, "label": "two\nlines",
                         "sid": "SRC", "stype": "Trough 100ml", "did": "DST", "dtype": "96 Well", "lc": "W", "md": 6, "reuse": 3}]
        progs.append(h)
    return progs


def badwell_programs(dev):
    """Well ids that do not exist in the labware (out of range or malformed) through every record emitting operation (C08)."""
    progs = []
    P, T, Sx = 0, 1, 2
    bad_plate = [(3, 0), (0, 4), (25, 0), (30, 1), "A1", "A001x", "AA01", "a01", "01A", "", "A-1", "Ä01", "A 01", "A00", "C0", "B000", "A011", "A01x", "B0100", "C04 ", " A01", "B02\n", "\tA01", "AB01"]
    bad_trough = [(4, 0), (0, 3), "A1", "E01", "column_01", "A00", "D0"]
    k = 0
    for w in bad_plate:
        h = _hdr(f"badwell/plate-{k}", dev, base_labware(), flags={"comp": False, "norm": False})
        w2 = list(w) if isinstance(w, tuple) else w
        h["ops"] = [
            {"op": "aspirate", "lw": P, "wells": L([w2]), "vols": S(1), "label": "bad"},
            {"op": "dispense", "lw": P, "wells": S(w2), "vols": S(1), "label": None},
            {"op": "transfer", "src": P, "sw": L([w2]), "dst": Sx, "dw": L([(0, 1)]), "vols": S(1), "label": "bad src", "wash": 1},
            {"op": "transfer", "src": T, "sw": L([(0, 0)]), "dst": P, "dw": L([w2, w2]), "vols": L([1, 2]), "label": "bad dst", "wash": 1},
            {"op": "distribute", "src": T, "col": 0, "dst": P, "dw": L([w2]), "vol": 1, "label": "bad dist"},
            {"op": "add", "lw": P, "wells": L([w2]), "vols": S(1), "label": None},
            {"op": "aspirate", "lw": P, "wells": L([w2]), "vols": S(0), "label": "bad, nothing to take"},
            {"op": "dispense", "lw": P, "wells": L([w2, (0, 1)]), "vols": L([0, 1]), "label": "bad first, zero"},
            {"op": "dispense", "lw": P, "wells": L([(0, 1), w2]), "vols": L([1, 0]), "label": "bad second, zero"},
            {"op": "remove", "lw": P, "wells": L([w2]), "vols": S(0), "label": None},
            # within one labware: an unknown source next to known destinations and the other way round, after a valid pair
            {"op": "transfer", "src": P, "sw": L([(0, 0), w2]), "dst": P, "dw": L([(0, 1), (0, 2)]), "vols": S(1), "label": "bad src inside one plate", "wash": 1},
            {"op": "transfer", "src": P, "sw": L([(0, 0), (1, 1)]), "dst": P, "dw": L([(0, 1), w2]), "vols": S(1), "label": "bad dst inside one plate", "wash": 1},
            {"op": "transfer", "src": T, "sw": L([(0, 0)]), "dst": P, "dw": L([(0, 1)]), "vols": S(1), "label": "fine", "wash": 1},
        ]
        progs.append(h)
        k += 1
    for w in bad_trough:
        h = _hdr(f"badwell/trough-{k}", dev, base_labware(), flags={"comp": False, "norm": False})
        w2 = list(w) if isinstance(w, tuple) else w
        h["ops"] = [
            {"op": "aspirate", "lw": T, "wells": L([w2]), "vols": S(1), "label": "bad"},
            {"op": "transfer", "src": T, "sw": L([w2]), "dst": P, "dw": L([(0, 1)]), "vols": S(1), "label": "bad src", "wash": 1},
            {"op": "transfer", "src": P, "sw": L([(0, 0)]), "dst": T, "dw": L([w2]), "vols": S(1), "label": "bad dst", "wash": "flush"},
            {"op": "distribute", "src": T, "col": 0, "dst": T, "dw": L([w2]), "vol": 1, "label": "bad dist"},
        ]
        progs.append(h)
        k += 1
    return progs


def rounding_programs(dev, r):
    """Volumes with three decimals (unit = 1/1000 microlitre, third decimal never 5): the records carry the
    volume rounded to two decimals; robot and twin may differ by half a hundredth per record (C01)."""
    progs = []
    for n in range(6):
        lws = [gen.mk_plate("plate", 3, 4, 0, 2000000, [r.choice([0, 500000, 1234567]) for _ in range(12)]),
               gen.mk_trough("trough", 4, 2, 1000, 90000000, [50000000, 40000000])]
        h = gen.header(f"rounding/{n}", dev, Fraction(1, 1000), 950000, lws, flags={"comp": False, "norm": False})
        h["millis"] = True
        ops = []
        for _ in range(8):
            k = r.randrange(2)
            spec = lws[k]
            wells = [list(r.choice(gen.id_wells(spec))) for _ in range(r.randint(1, 4))]
            vols = []
            for _w in wells:
                v = r.choice([r.randint(1, 99999), r.randint(1, 999), 12344, 12346, 4, 6, 10001, 9999])
                if v % 10 == 5:
                    v += 1
                vols.append(v)
            name = r.choice(["aspirate", "dispense", "dispense"])
            if name == "aspirate":
                # keep removals affordable: only from the trough or from filled wells
                k, spec = 1, lws[1]
                wells = [list(r.choice(gen.id_wells(spec))) for _ in wells]
            ops.append({"op": name, "lw": k, "wells": {"k": "l", "x": wells}, "vols": {"k": "l", "x": vols}, "label": None})
        h["ops"] = ops
        progs.append(h)
    return progs


def thirddecimal_limit_programs(dev):
    """Steps a few thousandths of a microlitre above the worklist's max_volume (their two-decimal text equals the limit's):
    too large all the same (C03.oversized, C06.nosplit); the limit itself and a hair below it are fine."""
    progs = []
    for auto in (False, True):
        lws = [gen.mk_plate("plate", 3, 4, 0, 2000000, [500000] * 12), gen.mk_trough("trough", 4, 2, 1000, 90000000, [50000000, 40000000])]
        h = gen.header(f"thirddecimal/{'split' if auto else 'nosplit'}", dev, Fraction(1, 1000), 200000, lws, autosplit=auto, flags={"comp": False, "norm": False})
        h["millis"] = True
        one = lambda k, w, v, name: {"op": name, "lw": k, "wells": {"k": "l", "x": [list(w)]}, "vols": {"k": "l", "x": [v]}, "label": None}  # noqa
        h["ops"] = [one(1, (0, 0), 200004, "aspirate"), one(0, (0, 1), 200001, "dispense"), one(1, (1, 0), 200000, "aspirate"),
                    one(0, (1, 1), 199996, "dispense"), one(1, (0, 1), 200049, "aspirate"), one(0, (2, 1), 200051, "dispense"),
                    {"op": "transfer", "src": 1, "sw": L([(0, 0)]), "dst": 0, "dw": L([(0, 2)]), "vols": L([200004]), "label": "a hair too large", "wash": 1},
                    {"op": "transfer", "src": 1, "sw": L([(0, 0), (1, 0)]), "dst": 0, "dw": L([(1, 2), (2, 2)]), "vols": L([199996, 200000]), "label": "fits", "wash": 1}]
        progs.append(h)
    return progs


def device_programs():
    """Programs for the EVO / Fluent comparison that are outside C01's quantifier: several virtual rows of one
    trough column as distribute destinations (distinct positions on the EVO, one position on the Fluent)."""
    P, T, Sx = 0, 1, 2
    progs = []
    h = _hdr("devices/trough-destinations", "evo", base_labware(), wlmax=30, flags={"comp": True, "norm": False})
    h["ops"] = [
        {"op": "distribute", "src": T, "col": 0, "dst": T, "dw": L([(0, 2), (1, 2), (3, 2)]), "vol": 4, "label": "three rows of one column"},
        {"op": "distribute", "src": T, "col": 1, "dst": T, "dw": L([(0, 0), (1, 0), (2, 0), (3, 0), (1, 2)]), "vol": 2, "label": "two columns"},
        {"op": "distribute", "src": T, "col": 2, "dst": T, "dw": L([(0, 0), (1, 0), (2, 0)]), "vol": 9, "label": "underflows: 14 - 27"},
        {"op": "transfer", "src": T, "sw": L([(0, 0), (3, 0)]), "dst": T, "dw": L([(2, 1), (1, 1)]), "vols": L([3, 2]), "label": "t", "wash": 1},
    ]
    progs.append(h)
    # every (virtual) well of the destination at once, listed in plate order and as the 2-D table
    lws = base_labware() + [gen.mk_trough("sink", 4, 2, 0, 60, [0, 5])]
    h = _hdr("devices/all-wells-of-the-destination", "evo", lws, wlmax=30, flags={"comp": True, "norm": False})
    h["ops"] = [
        {"op": "distribute", "src": T, "col": 0, "dst": P, "dw": L([(r, c) for c in range(4) for r in range(3)]), "vol": 1, "label": "whole plate"},
        {"op": "distribute", "src": T, "col": 1, "dst": P, "dw": M([[(r, c) for c in range(4)] for r in range(3)]), "vol": 1, "label": "whole plate, table"},
        {"op": "distribute", "src": T, "col": 0, "dst": 3, "dw": L([(r, c) for c in range(2) for r in range(4)]), "vol": 1, "label": "every virtual well of a trough"},
        {"op": "distribute", "src": T, "col": 0, "dst": 3, "dw": L([(r, 1) for r in range(4)]), "vol": 2, "label": "every virtual well of one column"},
        {"op": "transfer", "src": T, "sw": L([(r, 0) for r in range(4)]), "dst": 3, "dw": L([(r, 0) for r in range(4)]), "vols": S(1), "label": "column to column", "wash": 1},
    ]
    progs.append(h)
    # the wash scheme given as a numpy integer (taken from an array of protocol parameters), and DiTi mode with every scheme
    for diti in (False, True):
        h = _hdr(f"devices/wash-schemes-diti{int(diti)}", "evo", base_labware(), wlmax=30, diti=diti, flags={"comp": False, "norm": False})
        ops = []
        for i, wsch in enumerate([1, 2, 3, 4, "flush", "reuse", 2, 4]):
            o = {"op": "transfer", "src": T, "sw": L([(0, 0), (1, 0)]), "dst": P, "dw": L([(i % 3, 1), ((i + 1) % 3, 2)]), "vols": L([1, 1]),
                 "label": f"scheme {wsch}", "wash": wsch}
            if i >= 6:
                o["washnp"] = True
            ops.append(o)
        h["ops"] = ops
        progs.append(h)
    return progs


NAN = -888888


def round2_programs(dev):
    """Cases added after the second round of seeded changes."""
    progs = []
    P, T, Sx = 0, 1, 2

    def prog(name, lws, ops, **kw):
        fl = kw.pop("flags", {"comp": True, "norm": False})
        h = _hdr(f"round2/{name}", dev, lws, flags=fl, **kw)
        h["ops"] = ops
        progs.append(h)

    # auto_split off with zero volumes in the middle of a column group (both devices must agree, history must stay)
    lw = base_labware
    prog("nosplit-zeros", lw(), [
        {"op": "add", "lw": P, "wells": L([(0, 1)]), "vols": S(1), "label": "before"},
        {"op": "transfer", "src": T, "sw": L([(0, 0), (1, 0), (2, 0), (3, 0)]), "dst": P, "dw": L([(0, 1), (1, 1), (2, 1), (0, 2)]),
         "vols": L([2, 0, 3, 4]), "label": "zeros inside", "wash": 1, "pby": "destination"},
        {"op": "transfer", "src": T, "sw": L([(0, 0), (1, 0)]), "dst": P, "dw": L([(0, 1), (1, 1)]), "vols": L([0, 0]), "label": "moves nothing", "wash": 1},
        {"op": "transfer", "src": P, "sw": L([(0, 1), (1, 1), (2, 1)]), "dst": P, "dw": L([(0, 3), (1, 3), (2, 3)]), "vols": L([1, 0, 2]), "label": "within", "wash": "reuse"},
    ], autosplit=False, wlmax=30, flags={"comp": False, "norm": False, "fullhist": True})
    # a NaN volume is an invalid argument: rejected, nothing changes (and nothing is poisoned for later steps)
    prog("nan-volumes", lw(), [
        {"op": "dispense", "lw": P, "wells": L([(0, 1)]), "vols": S(NAN), "label": None},
        {"op": "aspirate", "lw": P, "wells": L([(0, 0), (1, 1)]), "vols": L([1, NAN]), "label": None},
        {"op": "add", "lw": P, "wells": L([(0, 1)]), "vols": S(NAN), "label": None},
        {"op": "remove", "lw": T, "wells": L([(0, 0)]), "vols": S(NAN), "label": None},
        {"op": "dispense", "lw": P, "wells": L([(0, 1)]), "vols": S(35), "label": "would overflow a poisoned well"},
        {"op": "aspirate", "lw": P, "wells": L([(1, 1)]), "vols": S(2), "label": "would underflow a poisoned well"},
        {"op": "transfer", "src": T, "sw": L([(0, 0)]), "dst": P, "dw": L([(0, 1)]), "vols": S(NAN), "label": "nan transfer", "wash": 1},
    ], wlmax=40, flags={"comp": False, "norm": False})
    # initial volumes handed over as float16 / float32 / int32 tables: the labware works in full precision afterwards
    for dt in ("float16", "float32", "int32"):
        lws = [gen.mk_plate("plate", 2, 2, 0, 3000, [2048, 1024, 0, 512]), gen.mk_trough("trough", 4, 2, 0, 5000, [4096, 100])]
        lws[0]["init_dtype"] = dt
        prog(f"initial-volumes-{dt}", lws, [
            {"op": "add", "lw": P, "wells": L([(0, 0)]), "vols": S(1), "label": "one more"},
            {"op": "add", "lw": P, "wells": L([(0, 0)]), "vols": S(1), "label": "and another"},
            {"op": "dispense", "lw": P, "wells": L([(0, 0), (1, 0)]), "vols": L([1, 1]), "label": "two wells"},
            {"op": "remove", "lw": P, "wells": L([(0, 0)]), "vols": S(3), "label": "back"},
            {"op": "transfer", "src": P, "sw": L([(0, 0)]), "dst": P, "dw": L([(0, 1)]), "vols": S(1), "label": "one", "wash": 1},
            {"op": "transfer", "src": T, "sw": L([(0, 0)]), "dst": P, "dw": L([(1, 1)]), "vols": S(1), "label": "one from the trough", "wash": 1},
        ], wlmax=10, flags={"comp": False, "norm": False, "fullhist": True})
    # a very deep dilution series (three times 1:500, then twice 1:100): the fractions leave the range the exact arithmetic of the
    # checks supports, the PRESENCE of every component is still judged (C05.support)
    lws = [gen.mk_plate("series", 1, 6, 0, 600, [500, 499, 499, 499, 495, 495], names=["dye", "w1", "w2", "w3", "w4", "w5"]),
           gen.mk_plate("assay", 2, 2, 0, 600, [0, 100, 0, 0], names=[None, "buffer", None, None])]
    prog("deep-dilution", lws, [
        {"op": "transfer", "src": 0, "sw": L([(0, 0)]), "dst": 0, "dw": L([(0, 1)]), "vols": S(1), "label": "1:500", "wash": 1},
        {"op": "transfer", "src": 0, "sw": L([(0, 1)]), "dst": 0, "dw": L([(0, 2)]), "vols": S(1), "label": "1:250000", "wash": 1},
        {"op": "transfer", "src": 0, "sw": L([(0, 2)]), "dst": 0, "dw": L([(0, 3)]), "vols": S(1), "label": "1:1.25e8", "wash": 1},
        {"op": "transfer", "src": 0, "sw": L([(0, 3)]), "dst": 0, "dw": L([(0, 4)]), "vols": S(5), "label": "1:1.25e10", "wash": 1},
        {"op": "transfer", "src": 0, "sw": L([(0, 4)]), "dst": 0, "dw": L([(0, 5)]), "vols": S(5), "label": "1:1.25e12", "wash": 1},
        {"op": "transfer", "src": 0, "sw": L([(0, 5), (0, 3)]), "dst": 1, "dw": L([(0, 0), (1, 0)]), "vols": L([100, 50]), "label": "to the assay plate", "wash": 1},
        {"op": "transfer", "src": 1, "sw": L([(0, 0)]), "dst": 1, "dw": L([(0, 1)]), "vols": S(20), "label": "onto buffer", "wash": 1},
    ], wlmax=200, flags={"comp": True, "norm": False, "deep": True})
    # mixing in place (source well = destination well): the aspiration is still subject to min_volume
    lws = [gen.mk_plate("plate", 2, 2, 5, 30, [20, 8, 0, 6]), gen.mk_trough("trough", 4, 2, 10, 60, [24, 12])]
    prog("mix-in-place", lws, [
        {"op": "transfer", "src": P, "sw": L([(0, 0)]), "dst": P, "dw": L([(0, 0)]), "vols": S(10), "label": "mix 10 of 20, min 5", "wash": 1},
        {"op": "transfer", "src": P, "sw": L([(0, 0)]), "dst": P, "dw": L([(0, 0)]), "vols": S(16), "label": "mix 16 of 20 would leave 4 < 5", "wash": 1},
        {"op": "transfer", "src": P, "sw": L([(1, 0), (0, 0)]), "dst": P, "dw": L([(1, 0), (0, 0)]), "vols": L([3, 15]), "label": "second row too much", "wash": "reuse"},
        {"op": "transfer", "src": T, "sw": L([(0, 0)]), "dst": T, "dw": L([(2, 0)]), "vols": S(14), "label": "two rows of one trough column: 24 - 14 = 10", "wash": 1},
        {"op": "transfer", "src": T, "sw": L([(1, 0)]), "dst": T, "dw": L([(3, 0)]), "vols": S(15), "label": "24 - 15 < 10", "wash": 1},
        {"op": "transfer", "src": P, "sw": L([(0, 0)]), "dst": P, "dw": L([(0, 0)]), "vols": S(40), "label": "split mix: 40 in steps of 7, each step fits", "wash": 1},
    ], wlmax=16, flags={"comp": False, "norm": False})
    # per-well compositions where a zero volume comes before a non-zero one
    prog("zero-before-nonzero-with-compositions", lw(), [
        {"op": "dispense", "lw": P, "wells": L([(0, 1), (1, 1), (2, 1)]), "vols": L([4, 0, 2]), "label": "skip the middle",
         "comps": [{"acid": (1, 1)}, {"base": (1, 1)}, {"salt": (1, 1)}]},
        {"op": "add", "lw": P, "wells": L([(0, 2), (1, 2), (2, 2), (0, 3)]), "vols": L([0, 0, 3, 1]), "label": "two zeros first",
         "comps": [{"a": (1, 1)}, {"b": (1, 1)}, {"c": (1, 1)}, {"d": (1, 2), "c": (1, 2)}]},
        {"op": "transfer", "src": P, "sw": L([(2, 1), (2, 2)]), "dst": Sx, "dw": L([(0, 1), (0, 1)]), "vols": L([1, 1]), "label": "pool", "wash": 1},
    ], wlmax=30)
    # one call naming the same well twice with two different liquids
    prog("same-well-twice", lw(), [
        {"op": "dispense", "lw": P, "wells": L([(0, 1), (0, 1)]), "vols": L([2, 2]), "label": "acid then base",
         "comps": [{"acid": (1, 1)}, {"base": (1, 1)}]},
        {"op": "add", "lw": P, "wells": L([(1, 1), (1, 1), (1, 1)]), "vols": L([1, 2, 1]), "label": "three liquids",
         "comps": [{"x": (1, 1)}, {"y": (1, 1)}, {"z": (1, 2), "x": (1, 2)}]},
        {"op": "transfer", "src": P, "sw": L([(0, 1), (1, 1)]), "dst": Sx, "dw": L([(0, 1), (0, 1)]), "vols": L([2, 2]), "label": "pool", "wash": 1},
    ], wlmax=30)
    # a reagent distribution of many significant digits (12345.67 uL per well; unit = 1/100 uL): record and twin agree
    big = [gen.mk_plate("bottles", 2, 2, 0, 5000000, [0, 100, 0, 0]), gen.mk_trough("tank", 4, 2, 1000, 90000000, [50000000, 40000000])]
    h = _hdr("round2/distribute-many-digits", dev, big, wlmax=3000000, unit=Fraction(1, 100), flags={"comp": False, "norm": False})
    h["snap"] = True
    h["ops"] = [{"op": "distribute", "src": 1, "col": 0, "dst": 0, "dw": L([(0, 0), (1, 1)]), "vol": 1234567, "label": "12345.67 each"},
                {"op": "distribute", "src": 1, "col": 1, "dst": 0, "dw": L([(1, 0)]), "vol": 2000001, "label": "20000.01"},
                {"op": "transfer", "src": 1, "sw": L([(0, 0)]), "dst": 0, "dw": L([(0, 1)]), "vols": S(1234567), "label": "12345.67", "wash": 1}]
    progs.append(h)
    # many steps that are smaller than the resolution of a float16 table at the fill level of the well (unit = 1/4 uL):
    # every step counts, the fifth one does not fit any more
    lws = [gen.mk_plate("plate", 1, 3, 0, 2404, [2400, 2400, 0]), gen.mk_trough("trough", 4, 1, 2396, 4000, [2400])]
    lws[0]["init_dtype"] = "float16"
    h = _hdr("round2/float16-small-steps", dev, lws, wlmax=40, unit=Fraction(1, 4), flags={"comp": False, "norm": False})
    h["ops"] = [{"op": "dispense", "lw": P, "wells": L([(0, 0)]), "vols": S(1), "label": f"quarter {i + 1}"} for i in range(6)] + \
               [{"op": "transfer", "src": P, "sw": L([(0, 1)]), "dst": P, "dw": L([(0, 2)]), "vols": S(1), "label": f"move quarter {i + 1}", "wash": "reuse"} for i in range(3)]
    progs.append(h)
    # empty argument lists: nothing is pipetted, nothing is refused, later operations are unaffected
    prog("empty-lists", lw(), [
        {"op": "add", "lw": P, "wells": L([(0, 1)]), "vols": S(2), "label": "before"},
        {"op": "transfer", "src": T, "sw": L([]), "dst": P, "dw": L([]), "vols": L([]), "label": "nothing to do", "wash": 1},
        {"op": "aspirate", "lw": P, "wells": L([]), "vols": L([]), "label": "no wells"},
        {"op": "dispense", "lw": P, "wells": L([]), "vols": L([]), "label": None},
        {"op": "add", "lw": P, "wells": L([]), "vols": L([]), "label": "no wells"},
        {"op": "remove", "lw": T, "wells": L([]), "vols": L([]), "label": None},
        {"op": "distribute", "src": T, "col": 0, "dst": P, "dw": L([]), "vol": 2, "label": "no destinations"},
        {"op": "transfer", "src": T, "sw": L([(0, 0)]), "dst": P, "dw": L([(0, 1)]), "vols": S(3), "label": "after", "wash": 1},
    ], flags={"comp": False, "norm": False, "fullhist": True})
    # the same two components, listed in the opposite order with exchanged fractions, meet in one well
    prog("composition-key-order", lw(), [
        {"op": "dispense", "lw": P, "wells": L([(0, 1), (1, 1)]), "vols": S(4), "label": "first", "comps": [{"acid": (1, 4), "base": (3, 4)}, {"base": (1, 4), "acid": (3, 4)}]},
        {"op": "dispense", "lw": P, "wells": L([(0, 1), (1, 1)]), "vols": S(4), "label": "second", "comps": [{"base": (1, 4), "acid": (3, 4)}, {"base": (1, 4), "acid": (3, 4)}]},
        {"op": "transfer", "src": P, "sw": L([(0, 1)]), "dst": P, "dw": L([(1, 1)]), "vols": S(4), "label": "pool", "wash": 1},
        {"op": "transfer", "src": P, "sw": L([(1, 1)]), "dst": Sx, "dw": L([(0, 1)]), "vols": S(6), "label": "on", "wash": 1},
    ], wlmax=30)
    # a multi-well dispense with compositions that overflows in a later well
    prog("overflow-midway-with-compositions", lw(), [
        {"op": "dispense", "lw": P, "wells": L([(0, 0), (2, 3), (1, 1)]), "vols": L([5, 20, 3]), "label": "second overflows",
         "comps": [{"water": (1, 1)}, {"water": (1, 1)}, {"water": (1, 1)}]},
        {"op": "transfer", "src": P, "sw": L([(0, 0)]), "dst": P, "dw": L([(1, 0)]), "vols": S(4), "label": "carry on", "wash": 1},
        {"op": "add", "lw": P, "wells": L([(1, 1), (0, 0), (2, 3)]), "vols": L([2, 2, 19]), "label": "third overflows",
         "comps": [{"acid": (1, 1)}, {"acid": (1, 2), "water": (1, 2)}, {"acid": (1, 1)}]},
        {"op": "transfer", "src": P, "sw": L([(0, 0), (1, 1)]), "dst": Sx, "dw": L([(0, 1), (0, 3)]), "vols": L([3, 1]), "label": "after", "wash": 1},
    ])
    # a trough read through one virtual row, refilled through another, read again through the first
    prog("trough-rows-alias-composition", lw(), [
        {"op": "transfer", "src": T, "sw": L([(0, 0)]), "dst": P, "dw": L([(0, 1)]), "vols": S(3), "label": "read via A", "wash": 1},
        {"op": "dispense", "lw": T, "wells": L([(2, 0)]), "vols": S(10), "label": "other liquid via C", "comps": [{"dye": (1, 1)}]},
        {"op": "transfer", "src": T, "sw": L([(0, 0)]), "dst": P, "dw": L([(1, 1)]), "vols": S(6), "label": "read via A again", "wash": 1},
        {"op": "transfer", "src": P, "sw": L([(0, 0)]), "dst": T, "dw": L([(3, 1)]), "vols": S(2), "label": "into column 2 via D", "wash": 1},
        {"op": "distribute", "src": T, "col": 1, "dst": P, "dw": L([(2, 0), (2, 1)]), "vol": 2, "label": "column 2 out"},
        {"op": "transfer", "src": T, "sw": L([(1, 1)]), "dst": Sx, "dw": L([(0, 1)]), "vols": S(3), "label": "via B", "wash": 1},
    ], wlmax=30)
    # liquid of unknown origin (bare dispense into an empty well) mixed with tracked liquid
    prog("unknown-liquid", lw(), [
        {"op": "dispense", "lw": P, "wells": L([(1, 0), (2, 2)]), "vols": L([4, 6]), "label": "unknown"},
        {"op": "transfer", "src": P, "sw": L([(0, 0)]), "dst": P, "dw": L([(1, 0)]), "vols": S(4), "label": "known into unknown", "wash": 1},
        {"op": "transfer", "src": P, "sw": L([(2, 2)]), "dst": P, "dw": L([(2, 3)]), "vols": S(3), "label": "unknown into known", "wash": 1},
        {"op": "transfer", "src": P, "sw": L([(1, 0)]), "dst": Sx, "dw": L([(0, 1)]), "vols": S(5), "label": "mixture on", "wash": 1},
        {"op": "distribute", "src": T, "col": 0, "dst": P, "dw": L([(2, 2), (1, 0)]), "vol": 2, "label": "top up"},
    ], wlmax=30)
    # a plate and a trough of the same format in one worklist (numbering must not be shared between them)
    same = [gen.mk_plate("plate43", 4, 3, 0, 40, [10, 0, 0, 5, 0, 0, 0, 0, 0, 0, 0, 8]), gen.mk_trough("trough43", 4, 3, 1, 90, [60, 50, 0]),
            gen.mk_plate("strip", 1, 5, 1, 20, [5, 0, 10, 0, 0], names=["a", None, "b", None, None])]
    for first in ("trough", "plate"):
        t1 = {"op": "transfer", "src": 1, "sw": L([(1, 0), (3, 1), (2, 0)]), "dst": 0, "dw": L([(1, 1), (3, 2), (2, 0)]), "vols": L([2, 3, 4]), "label": "t->p", "wash": 1}
        t2 = {"op": "transfer", "src": 0, "sw": L([(0, 0), (3, 0)]), "dst": 0, "dw": L([(2, 2), (1, 2)]), "vols": L([2, 3]), "label": "p->p", "wash": 1}
        d1 = {"op": "distribute", "src": 1, "col": 1, "dst": 0, "dw": L([(0, 1), (3, 1), (2, 2)]), "vol": 2, "label": "dist"}
        a1 = {"op": "aspirate", "lw": 1, "wells": L([(2, 1), (0, 0)]), "vols": L([1, 2]), "label": None}
        ops = [t1, t2, d1, a1] if first == "trough" else [t2, t1, a1, d1]
        prog(f"same-format-{first}-first", [dict(x) for x in same], ops, wlmax=30)
    # two labware constructed from one and the same initial-volume array
    shared = [dict(gen.mk_plate("plateA", 2, 3, 0, 50, [10, 10, 10, 10, 10, 10]), share="tpl"),
              dict(gen.mk_plate("plateB", 2, 3, 0, 50, [10, 10, 10, 10, 10, 10]), share="tpl"),
              gen.mk_trough("trough", 2, 1, 0, 90, [60])]
    prog("shared-template-array", shared, [
        {"op": "transfer", "src": 0, "sw": L([(0, 0)]), "dst": 1, "dw": L([(0, 0)]), "vols": S(8), "label": "A->B", "wash": 1},
        {"op": "transfer", "src": 0, "sw": L([(1, 0)]), "dst": 1, "dw": L([(0, 0)]), "vols": S(8), "label": "A->B again", "wash": 1},
        {"op": "add", "lw": 0, "wells": L([(1, 2)]), "vols": S(5), "label": "only A"},
        {"op": "aspirate", "lw": 1, "wells": L([(1, 1)]), "vols": S(3), "label": "only B"},
    ], wlmax=30, flags={"comp": False, "norm": False})
    return progs


def config_programs(dev):
    """The worklist's public configuration (max_volume, auto_split) is state: every operation obeys the values current at its call."""
    progs = []
    P, T, Sx = 0, 1, 2

    def prog(name, ops, **kw):
        h = _hdr(f"config/{name}", dev, base_labware(), flags={"comp": False, "norm": False}, **kw)
        h["ops"] = ops
        progs.append(h)

    same = {"op": "transfer", "src": T, "sw": L([(0, 0), (1, 0)]), "dst": P, "dw": L([(0, 1), (1, 1)]), "vols": L([6, 3]), "wash": 1}
    # the same transfer under three configurations of one worklist object (larger -> smaller -> larger)
    prog("shrink-then-grow", [
        dict(same, label="one step each"),
        {"op": "setconfig", "maxv": 2},
        dict(same, label="now three and two steps"),
        {"op": "setconfig", "maxv": 10},
        dict(same, label="one step each again"),
        {"op": "setconfig", "maxv": 4},
        dict(same, label="two steps and one"),
    ], wlmax=10)
    prog("grow-then-shrink", [
        dict(same, label="small tips"),
        {"op": "setconfig", "maxv": 12},
        dict(same, label="big tips"),
        {"op": "setconfig", "maxv": 2},
        dict(same, label="small again"),
    ], wlmax=2)
    # auto_split switched off and on again
    prog("autosplit-toggle", [
        dict(same, label="split"),
        {"op": "setconfig", "autosplit": False},
        dict(same, label="refused now"),
        {"op": "transfer", "src": T, "sw": L([(0, 0)]), "dst": P, "dw": L([(2, 1)]), "vols": S(3), "label": "fits", "wash": 1},
        {"op": "setconfig", "autosplit": True},
        dict(same, label="split again"),
    ], wlmax=3)
    prog("autosplit-off-then-larger-tips", [
        dict(same, label="refused"),
        {"op": "setconfig", "maxv": 6},
        dict(same, label="fits now"),
        {"op": "setconfig", "maxv": 5, "autosplit": True},
        dict(same, label="split in two"),
    ], wlmax=3, autosplit=False)
    # single steps and distributions obey the current value as well
    prog("single-steps", [
        {"op": "aspirate", "lw": T, "wells": L([(0, 0)]), "vols": S(8), "label": "too large"},
        {"op": "setconfig", "maxv": 8},
        {"op": "aspirate", "lw": T, "wells": L([(0, 0)]), "vols": S(8), "label": "fits"},
        {"op": "dispense", "lw": P, "wells": L([(0, 1)]), "vols": S(8), "label": "fits"},
        {"op": "setconfig", "maxv": 7},
        {"op": "dispense", "lw": P, "wells": L([(1, 1)]), "vols": S(8), "label": "too large again"},
        {"op": "distribute", "src": T, "col": 0, "dst": P, "dw": L([(0, 2), (1, 2), (2, 2)]), "vol": 2, "label": "three per aspirate"},
        {"op": "setconfig", "maxv": 4},
        {"op": "distribute", "src": T, "col": 0, "dst": P, "dw": L([(0, 3), (1, 3), (2, 3)]), "vol": 2, "label": "two per aspirate"},
    ], wlmax=5)
    # DiTi mode switched on and off: the wash records after each pair and the admissibility of a decontamination wash follow
    prog("diti-toggle", [
        dict(same, label="fixed tips"),
        {"op": "setconfig", "diti": True},
        dict(same, label="disposable tips", wash=3),
        dict(same, label="disposable tips, flush", wash="flush"),
        dict(same, label="disposable tips, reuse", wash="reuse"),
        {"op": "emit", "fn": "decontaminate", "args": {}},
        {"op": "emit", "fn": "wash", "args": {"scheme": {"cls": "int", "v": 2}}},
        {"op": "setconfig", "diti": False},
        dict(same, label="fixed tips again", wash=3),
        {"op": "emit", "fn": "decontaminate", "args": {}},
    ], wlmax=10)
    # the volume limits of a labware are public attributes too: tightened and widened between operations
    prog("labware-limits", [
        {"op": "dispense", "lw": P, "wells": L([(0, 1)]), "vols": S(20), "label": "fits 30"},
        {"op": "setlimits", "lw": P, "minv": 0, "maxv": 15},
        {"op": "dispense", "lw": P, "wells": L([(0, 1)]), "vols": S(1), "label": "already above the new limit"},
        {"op": "dispense", "lw": P, "wells": L([(1, 1)]), "vols": S(5), "label": "fits 15"},
        {"op": "dispense", "lw": P, "wells": L([(2, 1)]), "vols": S(16), "label": "does not fit 15"},
        {"op": "transfer", "src": T, "sw": L([(0, 0)]), "dst": P, "dw": L([(2, 1)]), "vols": S(16), "label": "neither through transfer", "wash": 1},
        {"op": "setlimits", "lw": P, "minv": 3, "maxv": 15},
        {"op": "aspirate", "lw": P, "wells": L([(1, 1)]), "vols": S(3), "label": "would leave 2 < 3"},
        {"op": "aspirate", "lw": P, "wells": L([(1, 1)]), "vols": S(2), "label": "leaves 3"},
        {"op": "setlimits", "lw": P, "minv": 0, "maxv": 40},
        {"op": "dispense", "lw": P, "wells": L([(2, 1)]), "vols": S(35), "label": "fits 40"},
        {"op": "distribute", "src": T, "col": 1, "dst": P, "dw": L([(0, 2), (1, 2)]), "vol": 4, "label": "fits"},
        {"op": "setlimits", "lw": T, "minv": 30, "maxv": 60},
        {"op": "distribute", "src": T, "col": 1, "dst": P, "dw": L([(0, 3), (1, 3)]), "vol": 2, "label": "source would fall below 30"},
    ], wlmax=40)
    # the reduction of a reagent distribution that aspirates too much is applied every time, not once per worklist
    prog("two-reductions", [
        {"op": "distribute", "src": T, "col": 0, "dst": P, "dw": L([(0, 2), (1, 2), (2, 2)]), "vol": 2, "label": "two per aspirate"},
        {"op": "distribute", "src": T, "col": 0, "dst": P, "dw": L([(0, 3), (1, 3), (2, 3)]), "vol": 2, "label": "two per aspirate again"},
        {"op": "setconfig", "maxv": 3},
        {"op": "distribute", "src": T, "col": 1, "dst": P, "dw": L([(0, 1), (1, 1), (2, 1)]), "vol": 2, "label": "one per aspirate"},
        {"op": "distribute", "src": T, "col": 1, "dst": P, "dw": L([(0, 0), (1, 0), (2, 0)]), "vol": 3, "label": "one per aspirate again"},
    ], wlmax=5)
    # a negative volume is refused whether or not volumes are split
    neg = {"op": "transfer", "src": T, "sw": L([(0, 0), (1, 0)]), "dst": P, "dw": L([(0, 1), (1, 1)]), "vols": L([-1, 2]), "wash": 1}
    prog("negative-without-splitting", [
        dict(neg, label="refused"),
        dict(same, label="refused as well: 6 > 5"),
        {"op": "setconfig", "autosplit": True},
        dict(neg, label="refused with splitting, too"),
        dict(same, label="split"),
        {"op": "setconfig", "autosplit": False, "maxv": 10},
        dict(neg, label="refused again"),
        dict(same, label="fits"),
    ], wlmax=5, autosplit=False)
    if dev == "evo":
        # every program once more on a worklist constructed through the deprecated name `robotools.Worklist`
        import copy

        for h in list(progs):
            a = copy.deepcopy(h)
            a["id"] += "-alias"
            a["wl"]["alias"] = True
            progs.append(a)
    return progs
