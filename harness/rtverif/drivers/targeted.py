"""Fixed, discriminating programs derived from the mutant classes the properties name.
They run before any random case so that quick-tier detection does not depend on luck."""
from fractions import Fraction

from .. import gen

U1 = Fraction(1)


def _hdr(pid, dev, lws, wlmax=5, unit=U1, autosplit=True, diti=False, flags=None):
    fl = {"comp": True, "norm": True}
    fl.update(flags or {})
    return gen.header(pid, dev, unit, wlmax, lws, autosplit=autosplit, diti=diti, flags=fl)


def L(ws):
    return {"k": "l", "x": [list(w) if isinstance(w, (tuple, list)) else w for w in ws]}


def S(x):
    return {"k": "s", "x": list(x) if isinstance(x, tuple) else x}


def M(rows):
    return {"k": "m", "x": [[list(e) if isinstance(e, tuple) else e for e in row] for row in rows]}


def base_labware():
    return [
        gen.mk_plate("plate", 3, 4, 0, 30, [6, 0, 0, 0, 9, 0, 0, 0, 0, 0, 0, 12]),
        gen.mk_trough("trough", 4, 3, 2, 60, [50, 40, 0]),
        gen.mk_plate("strip", 1, 5, 1, 20, [5, 0, 10, 0, 0], names=["a", None, "b", None, None]),
    ]


def worklist_programs(dev):
    """Programs of successful worklist operations with discriminating shapes (C01, C04, C05, C07, C16)."""
    progs = []
    P, T, Sx = 0, 1, 2

    def prog(name, ops, **kw):
        h = _hdr(f"targeted/{name}", dev, base_labware(), **kw)
        h["ops"] = ops
        h["pres"] = [{"wells": "ndarray", "vols": "ndarray"} if i % 2 else {} for i in range(len(ops))]
        progs.append(h)

    # trough source with virtual rows > 0, split volumes, all partition modes
    for pby in ("auto", "source", "destination"):
        prog(f"trough-vrows-{pby}", [
            {"op": "transfer", "src": T, "sw": L([(1, 0), (3, 0), (2, 1)]), "dst": P, "dw": L([(2, 3), (0, 1), (1, 0)]),
             "vols": L([3, 12, 7]), "label": "from trough", "wash": 1, "pby": pby},
            {"op": "transfer", "src": P, "sw": L([(2, 3), (0, 0)]), "dst": T, "dw": L([(3, 2), (0, 2)]),
             "vols": L([6, 11]), "label": None, "wash": "flush", "pby": pby},
        ])
    # sort order differs from input order in both lists; repeated wells; reuse
    prog("resort-both", [
        {"op": "transfer", "src": P, "sw": L([(2, 3), (0, 0), (1, 1), (0, 0)]), "dst": Sx, "dw": L([(0, 4), (0, 1), (0, 3), (0, 0)]),
         "vols": L([2, 1, 4, 3]), "label": "resort", "wash": "reuse", "pby": "source"},
        {"op": "transfer", "src": Sx, "sw": L([(0, 4), (0, 0), (0, 2)]), "dst": P, "dw": L([(1, 0), (2, 0), (0, 0)]),
         "vols": L([1, 3, 8]), "label": "back", "wash": 3, "pby": "destination"},
    ])
    # 2-D, non-square arguments whose row-major and column-major readings differ; broadcast forms
    prog("two-d", [
        {"op": "dispense", "lw": P, "wells": M([[(0, 0), (0, 1), (0, 2)], [(1, 0), (1, 1), (1, 2)]]),
         "vols": M([[1, 2, 3], [4, 5, 0]]), "label": "2d", "comps": [{"w": (1, 1)}] * 6},
        {"op": "aspirate", "lw": P, "wells": M([[(0, 0), (0, 1), (0, 2)], [(1, 0), (1, 1), (1, 2)]]),
         "vols": M([[1, 0, 2], [3, 4, 0]]), "label": None},
        {"op": "transfer", "src": T, "sw": S((2, 0)), "dst": P, "dw": M([[(0, 2), (0, 3)], [(1, 2), (1, 3)], [(2, 2), (2, 3)]]),
         "vols": M([[1, 2], [3, 4], [5, 6]]), "label": "bc", "wash": 2, "pby": "auto"},
        {"op": "transfer", "src": P, "sw": M([[(0, 2), (0, 3)], [(1, 2), (1, 3)]]), "dst": Sx, "dw": S((0, 1)),
         "vols": S(1), "label": "many-one", "wash": 4, "pby": "auto"},
    ])
    # distribute to non-contiguous destinations, right to left, multi dispense, then from column 1
    prog("distribute", [
        {"op": "distribute", "src": T, "col": 0, "dst": P, "dw": L([(2, 3), (0, 0), (1, 2), (0, 1)]), "vol": 3, "md": 6,
         "reuse": 2, "label": "spread", "dir": "right_to_left", "lc": "Water"},
        {"op": "distribute", "src": T, "col": 1, "dst": P, "dw": M([[(0, 0), (0, 2)], [(1, 0), (1, 2)]]), "vol": 5, "md": 3,
         "label": "", "dir": "left_to_right"},
        {"op": "distribute", "src": T, "col": 1, "dst": Sx, "dw": L([(0, 1), (0, 3), (0, 4)]), "vol": 2, "label": "strip"},
        {"op": "distribute", "src": T, "col": 0, "dst": T, "dw": L([(1, 2)]), "vol": 4, "label": "self"},
    ])
    # serial dilution within one labware, emptied and refilled wells, one-well self transfer, zero steps
    prog("dilution-chain", [
        {"op": "transfer", "src": P, "sw": L([(0, 0)]), "dst": P, "dw": L([(1, 0)]), "vols": S(3), "label": "d1", "wash": 1},
        {"op": "transfer", "src": T, "sw": L([(0, 1)]), "dst": P, "dw": L([(1, 0)]), "vols": S(3), "label": "fill", "wash": 1},
        {"op": "transfer", "src": P, "sw": L([(1, 0)]), "dst": P, "dw": L([(2, 0)]), "vols": S(2), "label": "d2", "wash": 1},
        {"op": "transfer", "src": P, "sw": L([(2, 0)]), "dst": P, "dw": L([(2, 0)]), "vols": S(1), "label": "mix", "wash": "reuse"},
        {"op": "transfer", "src": P, "sw": L([(2, 0)]), "dst": Sx, "dw": L([(0, 1)]), "vols": S(2), "label": "empty it", "wash": 1},
        {"op": "transfer", "src": P, "sw": L([(0, 0), (1, 0)]), "dst": P, "dw": L([(2, 0), (2, 0)]), "vols": L([0, 2]), "label": "refill", "wash": 1},
        {"op": "transfer", "src": P, "sw": L([(0, 0)]), "dst": P, "dw": L([(0, 1)]), "vols": S(0), "label": "nothing", "wash": 1},
    ], wlmax=2)
    # DiTi mode and flush, wash 4
    prog("diti", [
        {"op": "transfer", "src": T, "sw": L([(0, 0), (1, 0)]), "dst": P, "dw": L([(0, 1), (1, 1)]), "vols": L([4, 11]),
         "label": "diti", "wash": 4, "pby": "auto"},
        {"op": "transfer", "src": T, "sw": L([(0, 1)]), "dst": P, "dw": L([(0, 1)]), "vols": S(3), "label": None, "wash": "flush"},
    ], diti=True)
    return progs
