"""Run the repository's own test-suite under the recording plugin and return the recorded traces."""
import json
import os
import subprocess
import tempfile

from ..common import REPO, VERIF


def suite_traces(timeout=900):
    fd, path = tempfile.mkstemp(prefix="rtv_suite_", suffix=".json")
    os.close(fd)
    try:
        env = dict(os.environ)
        env.update({"PYTHONPATH": REPO + os.pathsep + os.path.join(VERIF, "harness"), "ROBOTOOLS_VERIF": "1",
                    "ROBOTOOLS_VERIF_TRACE_FILE": path, "PYTHONDONTWRITEBYTECODE": "1"})
        p = subprocess.run(["/venv/bin/python", "-m", "pytest", "-q", "-p", "no:cacheprovider", "-p", "rtverif.suite_plugin", "-x", "--timeout=600"],
                           cwd=REPO, env=env, capture_output=True, text=True, timeout=timeout)
        tail = (p.stdout + p.stderr).strip().splitlines()[-3:]
        try:
            with open(path) as f:
                data = json.load(f)
        except Exception:
            data = []
        traces, dead = [], []
        for t in data:
            if t["dead"]:
                dead.append((t["test"], t["dead"]))
            traces.extend(t["traces"])
        return traces, {"tests": len(data), "tests_recorded": sum(1 for t in data if t["traces"]), "tests_outside_domain": len(dead),
                        "pytest_tail": tail, "pytest_rc": p.returncode, "examples_outside_domain": dead[:5]}
    finally:
        try:
            os.unlink(path)
        except OSError:
            pass
