"""Programs of low level emitter calls with valid and invalid argument classes (C09)."""
from fractions import Fraction

from .. import gen

PRINTABLE = [chr(c) for c in list(range(32, 127)) + list(range(161, 256)) if chr(c) != ";"]


def text(r, maxlen=40, sep=False, minlen=0):
    n = r.randint(minlen, maxlen)
    s = "".join(r.choice(PRINTABLE) for _ in range(n))
    if sep:
        k = r.randint(0, len(s))
        s = s[:k] + ";" + s[k:]
    return s


def good_text(r, limited=True):
    return r.choice(["", "Plate_1", "96 Well µTP", text(r, 32 if limited else 40), "x" * 32, text(r, 12)])


def bad_text(r, limited=True):
    opts = [text(r, 20, sep=True), ";", "a;b"]
    if limited:
        opts += ["y" * 33, text(r, 40, minlen=33)]
    return r.choice(opts)


def I(n):
    return {"cls": "int", "v": n}


def num_good(r, lo=1, hi=384):
    return I(r.randint(lo, hi))


def num_bad(r):
    return r.choice([I(-1), I(-r.randint(2, 50)), {"cls": "float", "v": r.randint(0, 20)}])


def vol_good(r, maxul):
    # thousandths of a microlitre whose third decimal is not 5 (no rounding ties)
    while True:
        m = r.choice([0, 10, r.randint(0, maxul * 1000), r.randint(0, 200) * 1000, maxul * 1000, r.randint(0, 99999)])
        if m % 10 != 5 and m <= maxul * 1000:
            return m


def vol_bad(r, maxul):
    return r.choice([{"cls": "neg", "v": r.randint(1, 5000)}, {"cls": "nan", "v": 0}, {"cls": "inf", "v": 0},
                     (maxul + r.randint(1, 5)) * 1000, {"cls": "cents", "v": 715827900}, {"cls": "cents", "v": 800000000}])


def tip_good(r):
    if r.random() < 0.5:
        return {"k": "one", "s": r.choice([["int", r.randint(1, 8)], ["tip", r.randint(1, 8)], ["any"]])}
    return {"k": "coll", "x": [[r.choice(["int", "tip"]), r.randint(1, 8)] for _ in range(r.randint(1, 4))]}


def tip_bad(r):
    return r.choice([{"k": "one", "s": ["int", 0]}, {"k": "one", "s": ["int", 9]}, {"k": "one", "s": ["bad", "float"]},
                     {"k": "coll", "x": [["int", 2], ["any"]]}, {"k": "coll", "x": [["bad", "str"], ["int", 1]]}])


def well_call(r, maxul, invalid=None):
    fn = r.choice(["aspirate_well", "dispense_well"])
    g = {"rack": good_text(r), "pos": num_good(r), "vol": vol_good(r, maxul)}
    for k in ("lc", "rackid", "racktype", "tube", "frt"):
        if r.random() < 0.5:
            g[k] = good_text(r, limited=k not in ("lc", "tube"))
    if r.random() < 0.5:
        g["tip"] = tip_good(r)
    if invalid == "rack":
        g["rack"] = bad_text(r)
    elif invalid == "pos":
        g["pos"] = num_bad(r)
    elif invalid == "vol":
        g["vol"] = vol_bad(r, maxul)
    elif invalid == "tip":
        g["tip"] = tip_bad(r)
    elif invalid in ("lc", "rackid", "racktype", "tube", "frt"):
        g[invalid] = bad_text(r, limited=invalid not in ("lc", "tube"))
    return {"op": "emit", "fn": fn, "args": g}


def r_call(r, maxul, invalid=None):
    d1 = r.randint(1, 90)
    d2 = d1 + r.randint(0, 95)
    s1 = r.randint(1, 9)
    g = {"srack": good_text(r), "s1": I(s1), "s2": I(s1 + r.randint(0, 7)), "drack": good_text(r), "d1": I(d1), "d2": I(d2),
         "vol": r.choice([0, 1000, 12340, r.randint(0, maxul) * 1000, r.randint(0, maxul * 100) * 10])}
    if r.random() < 0.6:
        g["md"] = I(r.randint(1, 12))
    if r.random() < 0.5:
        g["reuse"] = I(r.randint(1, 6))
    if r.random() < 0.6 and d2 > d1:
        k = r.randint(0, min(6, d2 - d1))
        g["excl"] = r.sample(range(d1, d2 + 1), k)
        g["exclform"] = r.choice(["list", "set"])
    for k in ("lc", "sid", "stype", "did", "dtype"):
        if r.random() < 0.4:
            g[k] = good_text(r, limited=k != "lc")
    if r.random() < 0.5:
        g["dir"] = r.choice(["left_to_right", "right_to_left"])
    if invalid == "text":
        k = r.choice(["srack", "drack", "lc", "sid", "stype", "did", "dtype"])
        g[k] = bad_text(r, limited=k != "lc")
    elif invalid == "pos":
        g[r.choice(["s1", "s2", "d1", "d2"])] = num_bad(r)
        g.pop("excl", None)
    elif invalid == "vol":
        g["vol"] = vol_bad(r, maxul)
    elif invalid == "count":
        g[r.choice(["md", "reuse"])] = r.choice([I(0), I(-2), {"cls": "float", "v": 2}])
    elif invalid == "dir":
        g["dir"] = r.choice(["up", "", "Left_to_right"])
    elif invalid == "excl":
        g["excl"] = r.choice([[d1, d2 + r.randint(1, 9)], [max(0, d1 - 1)], [d1 + 0.5], [d1, d1 + 0.25] if d2 > d1 else [d1 + 0.5]])
    return {"op": "emit", "fn": "reagent_distribution", "args": g}


def simple_call(r, diti, invalid=False):
    k = r.choice(["comment", "wash", "decontaminate", "flush", "commit", "set_diti", "wash", "comment"])
    if k == "comment":
        if invalid:
            return {"op": "emit", "fn": "comment", "args": {"text": r.choice([text(r, 30, sep=True), "first line\nsecond; line", "a\n\nb\nc;", "ok\n;"])}}
        return {"op": "emit", "fn": "comment", "args": {"text": r.choice([None, "", "hello", " padded  ", "two\nlines", "a\n\n b \n", "µL transfer", text(r, 40),
                                                                          "\n", "  \n x"])}}
    if k == "wash":
        if invalid and not diti:
            return {"op": "emit", "fn": "wash", "args": {"scheme": r.choice([I(0), I(5), I(-1), I(12), {"cls": "float", "v": 2}])}}
        if r.random() < 0.2:
            return {"op": "emit", "fn": "wash", "args": {}}
        return {"op": "emit", "fn": "wash", "args": {"scheme": I(r.randint(1, 4))}}
    if k == "set_diti":
        if invalid:
            return {"op": "emit", "fn": "set_diti", "args": {"idx": r.choice([I(-1), {"cls": "float", "v": 1}, {"cls": "str", "v": "1;2"}])}}
        return {"op": "emit", "fn": "set_diti", "args": {"idx": I(r.randint(0, 9))}}
    return {"op": "emit", "fn": k, "args": {}}


def emitter_program(r, pid, dev, nops, diti=False, maxul=950):
    lws = [gen.mk_plate("plate", 2, 2, 0, 10, [0, 0, 0, 0])]
    h = gen.header(pid, dev, Fraction(1), maxul, lws, diti=diti, flags={"comp": False, "norm": False, "robot": False})
    ops = []
    for _ in range(nops):
        kind = r.random()
        bad = r.random() < 0.35
        if kind < 0.35:
            ops.append(well_call(r, maxul, r.choice(["rack", "pos", "vol", "tip", "lc", "rackid", "racktype", "tube", "frt"]) if bad else None))
        elif kind < 0.6:
            ops.append(r_call(r, maxul, r.choice(["text", "pos", "vol", "count", "dir", "excl"]) if bad else None))
        else:
            ops.append(simple_call(r, diti, bad))
    h["ops"] = ops
    return h


def targeted_programs(dev):
    """One program per invalid class and per field, plus the DiTi rules."""
    import random

    r = random.Random(7)
    progs = []
    k = 0
    for inv in ("rack", "pos", "vol", "tip", "lc", "rackid", "racktype", "tube", "frt", None):
        for rep in range(3):
            ops = [well_call(r, 950, inv) for _ in range(4)]
            lws = [gen.mk_plate("plate", 2, 2, 0, 10, [0, 0, 0, 0])]
            h = gen.header(f"emit/well-{inv}-{rep}", dev, Fraction(1), 950, lws, flags={"comp": False, "norm": False, "robot": False})
            h["ops"] = ops
            progs.append(h)
    for inv in ("text", "pos", "vol", "count", "dir", "excl", None):
        for rep in range(3):
            lws = [gen.mk_plate("plate", 2, 2, 0, 10, [0, 0, 0, 0])]
            h = gen.header(f"emit/r-{inv}-{rep}", dev, Fraction(1), r.choice([950, 100]), lws, flags={"comp": False, "norm": False, "robot": False})
            h["ops"] = [r_call(r, h["wl"]["maxv"], inv) for _ in range(4)]
            progs.append(h)
    # every spelling of the direction: the two documented ones are valid, everything else (also other letter cases) is not
    lws = [gen.mk_plate("plate", 2, 2, 0, 10, [0, 0, 0, 0])]
    h = gen.header("emit/r-directions", dev, Fraction(1), 950, lws, flags={"comp": False, "norm": False, "robot": False})
    h["ops"] = [{"op": "emit", "fn": "reagent_distribution",
                 "args": {"srack": "S", "s1": I(1), "s2": I(8), "drack": "D", "d1": I(1), "d2": I(12), "vol": 20000, "dir": d}}
                for d in ("left_to_right", "right_to_left", "LEFT_TO_RIGHT", "Left_to_right", "RIGHT_TO_LEFT", "Right_To_Left",
                          "left_to_right ", " right_to_left", "left-to-right", "ltr", "", "up", "0", "1")]
    progs.append(h)
    # the emitters obey the max_volume that is current at the call (the attribute is assigned between the calls)
    lws = [gen.mk_plate("plate", 2, 2, 0, 10, [0, 0, 0, 0])]
    h = gen.header("emit/config", dev, Fraction(1), 950, lws, flags={"comp": False, "norm": False, "robot": False})
    W = lambda fn, v: {"op": "emit", "fn": fn, "args": {"rack": "R", "pos": I(1), "vol": v * 1000}}
    R = lambda v, md: {"op": "emit", "fn": "reagent_distribution",
                       "args": {"srack": "S", "s1": I(1), "s2": I(8), "drack": "D", "d1": I(1), "d2": I(12), "vol": v * 1000, "md": I(md)}}
    h["ops"] = [W("aspirate_well", 500), R(300, 3), {"op": "setconfig", "maxv": 200}, W("aspirate_well", 500), W("dispense_well", 201),
                W("dispense_well", 200), R(300, 1), R(100, 3), R(50, 12), {"op": "setconfig", "maxv": 1000}, W("aspirate_well", 951),
                W("dispense_well", 1000), R(300, 3), R(300, 4), {"op": "setconfig", "maxv": 100}, R(100, 3), W("aspirate_well", 101)]
    progs.append(h)
    # multi-dispense reduction: volumes just above and below max_volume / k
    for M in (950, 200, 1000):
        lws = [gen.mk_plate("plate", 2, 2, 0, 10, [0, 0, 0, 0])]
        h = gen.header(f"emit/multidisp-{M}", dev, Fraction(1), M, lws, flags={"comp": False, "norm": False, "robot": False})
        ops = []
        for k in (2, 3, 4, 6, 7):
            for dv in (0, 1, -1):
                v = M // k + dv
                ops.append({"op": "emit", "fn": "reagent_distribution",
                            "args": {"srack": "S", "s1": I(1), "s2": I(8), "drack": "D", "d1": I(1), "d2": I(96), "vol": v * 1000, "md": I(k + 2)}})
            ops.append({"op": "emit", "fn": "reagent_distribution",
                        "args": {"srack": "S", "s1": I(1), "s2": I(8), "drack": "D", "d1": I(1), "d2": I(96), "vol": ((M * 100) // k + 10) * 10, "md": I(12)}})
        h["ops"] = ops
        progs.append(h)
    # a dispense without tip selection directly after an aspirate with one (and the other way round): no inheritance
    lws = [gen.mk_plate("plate", 2, 2, 0, 10, [0, 0, 0, 0])]
    h = gen.header("emit/tip-after-tip", dev, Fraction(1), 950, lws, flags={"comp": False, "norm": False, "robot": False})
    TIP = lambda n: {"k": "one", "s": ["int", n]}
    h["ops"] = [{"op": "emit", "fn": "aspirate_well", "args": {"rack": "R", "pos": I(1), "vol": 10000, "tip": TIP(3)}},
                {"op": "emit", "fn": "dispense_well", "args": {"rack": "R", "pos": I(2), "vol": 10000}},
                {"op": "emit", "fn": "aspirate_well", "args": {"rack": "R", "pos": I(1), "vol": 10000}},
                {"op": "emit", "fn": "dispense_well", "args": {"rack": "R", "pos": I(2), "vol": 10000, "tip": {"k": "coll", "x": [["int", 1], ["tip", 8]]}}},
                {"op": "emit", "fn": "aspirate_well", "args": {"rack": "R", "pos": I(1), "vol": 10000, "tip": {"k": "one", "s": ["any"]}}},
                {"op": "emit", "fn": "dispense_well", "args": {"rack": "R", "pos": I(2), "vol": 10000, "tip": {"k": "one", "s": ["any"]}}}]
    progs.append(h)
    # a worklist that is entered a second time (and one that is cleared): the DiTi rule looks at the records of the current filling
    h = gen.header("emit/reentered", dev, Fraction(1), 950, lws, flags={"comp": False, "norm": False, "robot": False, "file": True})
    E2 = lambda fn, **a: {"op": "emit", "fn": fn, "args": a}
    h["ops"] = [{"op": "enter"}, E2("flush"), E2("commit"), E2("flush"), E2("flush"), {"op": "exit"},
                {"op": "enter"}, E2("set_diti", idx=I(2)), E2("flush"), E2("flush"), E2("set_diti", idx=I(3)), E2("commit"), E2("set_diti", idx=I(1)), {"op": "exit"},
                {"op": "clear"}, E2("set_diti", idx=I(4)), E2("wash", scheme=I(1)), E2("set_diti", idx=I(5)), {"op": "clear"}, E2("comment", text="c"), E2("set_diti", idx=I(6))]
    progs.append(h)
    # whole numbers in other representations (3.0, numpy.int64(3)): if accepted, the record carries the plain integer
    lws = [gen.mk_plate("plate", 2, 2, 0, 10, [0, 0, 0, 0])]
    h = gen.header("emit/foreign-numbers", dev, Fraction(1), 950, lws, flags={"comp": False, "norm": False, "robot": False})
    N = lambda cls, v: {"cls": cls, "v": v}
    ops = []
    for cls in ("intfloat", "npint"):
        ops += [{"op": "emit", "fn": "aspirate_well", "args": {"rack": "R", "pos": N(cls, 3), "vol": 10000}},
                {"op": "emit", "fn": "dispense_well", "args": {"rack": "R", "pos": N(cls, 96), "vol": 12340}},
                {"op": "emit", "fn": "wash", "args": {"scheme": N("npint" if cls == "npint" else "int", 2)}},  # wash(2.0) writes "W2.0;": observed, not claimed
                {"op": "emit", "fn": "commit", "args": {}},
                {"op": "emit", "fn": "set_diti", "args": {"idx": N(cls, 2)}},
                {"op": "emit", "fn": "reagent_distribution",
                 "args": {"srack": "S", "s1": N(cls, 1), "s2": N(cls, 8), "drack": "D", "d1": N(cls, 1), "d2": N(cls, 12), "vol": 50000, "md": N(cls, 3), "reuse": N(cls, 2)}},
                {"op": "emit", "fn": "aspirate_well", "args": {"rack": "R", "pos": N(cls, 0), "vol": 10000}}]
    h["ops"] = ops
    progs.append(h)
    # the multi-dispense count never exceeds what fits max_volume, whether auto_split is on or off
    lws = [gen.mk_plate("plate", 2, 2, 0, 10, [0, 0, 0, 0])]
    h = gen.header("emit/multidisp-nosplit", dev, Fraction(1), 950, lws, autosplit=False, flags={"comp": False, "norm": False, "robot": False})
    h["ops"] = [{"op": "emit", "fn": "reagent_distribution",
                 "args": {"srack": "S", "s1": I(1), "s2": I(8), "drack": "D", "d1": I(1), "d2": I(96), "vol": v * 1000, "md": I(md)}}
                for v, md in ((400, 6), (300, 3), (300, 4), (100, 12), (950, 2), (475, 2), (476, 2))]
    progs.append(h)
    # volumes of many digits in R records, and volumes a hair above the largest one a record can carry
    h = gen.header("emit/large-volumes", dev, Fraction(1), 8000000, lws, flags={"comp": False, "norm": False, "robot": False})
    Rv = lambda vol: {"op": "emit", "fn": "reagent_distribution", "args": {"srack": "S", "s1": I(1), "s2": I(8), "drack": "D", "d1": I(1), "d2": I(2), "vol": vol, "md": I(1)}}
    Wv = lambda fn, vol: {"op": "emit", "fn": fn, "args": {"rack": "R", "pos": I(1), "vol": vol}}
    C = lambda c: {"cls": "cents", "v": c}
    h["ops"] = [Rv(C(1234567)), Rv(C(123456780)), Rv(C(715827800)), Rv(C(715827850)), Rv(C(715827801)),
                Wv("aspirate_well", C(715827800)), Wv("aspirate_well", C(715827850)), Wv("dispense_well", C(715827801)), Wv("dispense_well", C(123456789))]
    progs.append(h)
    # one long text (33 to 40 characters) that is fine where no limit applies and refused where one does - in this order,
    # in the other order, and in one call: a text is judged by the field it is given for, never by where it was seen before
    for n, long in enumerate(("L" * 33, "a rack label of thirty-six characters", "x" * 40)):
        lws = [gen.mk_plate("plate", 2, 2, 0, 10, [0, 0, 0, 0])]
        h = gen.header(f"emit/same-text-other-field-{n}", dev, Fraction(1), 950, lws, flags={"comp": False, "norm": False, "robot": False})
        Wk = lambda fn, **kw: {"op": "emit", "fn": fn, "args": dict({"rack": "R", "pos": I(1), "vol": 10000}, **kw)}
        Rk = lambda **kw: {"op": "emit", "fn": "reagent_distribution",
                           "args": dict({"srack": "S", "s1": I(1), "s2": I(8), "drack": "D", "d1": I(1), "d2": I(12), "vol": 20000}, **kw)}
        h["ops"] = [Wk("aspirate_well", lc=long), Wk("aspirate_well", rack=long), Wk("dispense_well", tube=long), Wk("dispense_well", rackid=long),
                    Wk("aspirate_well", racktype=long), Wk("aspirate_well", frt=long), Wk("aspirate_well", tube=long, racktype=long),
                    Wk("dispense_well", lc=long, frt=long), Wk("dispense_well", lc=long, tube=long),
                    Rk(lc=long), Rk(srack=long), Rk(drack=long), Rk(sid=long), Rk(stype=long), Rk(did=long), Rk(dtype=long), Rk(lc=long, dtype=long),
                    Wk("aspirate_well", rack=long[:32]), Wk("aspirate_well", rack=long[:32], lc=long)]
        progs.append(h)
    # reductions with decimal volumes that divide max_volume exactly "in decimal terms" (200 / 1.6 = 125): the count is reduced
    # only as far as needed
    for M, cents in ((200, 160), (1000, 80), (950, 76), (950, 20), (100, 30), (950, 190)):
        lws = [gen.mk_plate("plate", 2, 2, 0, 10, [0, 0, 0, 0])]
        h = gen.header(f"emit/multidisp-decimal-{M}-{cents}", dev, Fraction(1), M, lws, flags={"comp": False, "norm": False, "robot": False})
        fit = (M * 100) // cents
        h["ops"] = [{"op": "emit", "fn": "reagent_distribution",
                     "args": {"srack": "S", "s1": I(1), "s2": I(8), "drack": "D", "d1": I(1), "d2": I(96), "vol": {"cls": "cents", "v": cents}, "md": I(md)}}
                    for md in (fit + 50, fit + 1, fit, fit - 1)]
        progs.append(h)
    # third decimals: what fits one aspiration is decided on the volume as given (4 x 237.504 = 950.016 does not fit 950)
    lws = [gen.mk_plate("plate", 2, 2, 0, 10, [0, 0, 0, 0])]
    h = gen.header("emit/multidisp-third-decimal", dev, Fraction(1), 950, lws, flags={"comp": False, "norm": False, "robot": False})
    h["ops"] = [{"op": "emit", "fn": "reagent_distribution",
                 "args": {"srack": "S", "s1": I(1), "s2": I(8), "drack": "D", "d1": I(1), "d2": I(96), "vol": v, "md": I(md)}}
                for v, md in ((237504, 4), (237496, 4), (237500, 4), (237501, 4), (316668, 3), (316666, 3), (95004, 10), (94996, 10), (475004, 2), (949996, 1))]
    progs.append(h)
    # few destination wells (also after exclusions): the multi-dispense count depends on volume and max_volume only
    lws = [gen.mk_plate("plate", 2, 2, 0, 10, [0, 0, 0, 0])]
    h = gen.header("emit/multidisp-few-wells", dev, Fraction(1), 950, lws, flags={"comp": False, "norm": False, "robot": False})
    ops = []
    for d1, d2, excl in ((1, 3, None), (1, 2, None), (5, 5, None), (1, 12, [2, 3, 4, 5, 6, 7, 8, 9]), (1, 4, [2]), (10, 13, [11, 12]), (1, 96, list(range(2, 96)))):
        for vol, md in ((400, 6), (100, 6), (300, 3), (300, 4), (950, 2), (475, 2), (476, 2), (10, 12)):
            g = {"srack": "S", "s1": I(1), "s2": I(8), "drack": "D", "d1": I(d1), "d2": I(d2), "vol": vol * 1000, "md": I(md)}
            if excl is not None:
                g["excl"] = list(excl)
            ops.append({"op": "emit", "fn": "reagent_distribution", "args": g})
    h["ops"] = ops
    progs.append(h)
    # set_diti: at the start, after a break, elsewhere; decontaminate and wash in DiTi mode
    for diti in (False, True):
        lws = [gen.mk_plate("plate", 2, 2, 0, 10, [0, 0, 0, 0])]
        h = gen.header(f"emit/diti-{diti}", dev, Fraction(1), 950, lws, diti=diti, flags={"comp": False, "norm": False, "robot": False})
        E = lambda fn, **a: {"op": "emit", "fn": fn, "args": a}
        h["ops"] = [E("set_diti", idx=I(2)), E("set_diti", idx=I(3)), E("comment", text="c"), E("set_diti", idx=I(1)), E("commit"),
                    E("set_diti", idx=I(0)), E("wash", scheme=I(3)), E("set_diti", idx=I(1)), E("decontaminate"), E("flush"),
                    E("commit"), E("commit"), E("set_diti", idx={"cls": "float", "v": 1}), E("set_diti", idx=I(4)),
                    E("aspirate_well", rack="R", pos=I(1), vol=10000), E("set_diti", idx=I(1)), E("wash"), E("commit"),
                    E("set_diti", idx={"cls": "str", "v": "a;b"})]
        progs.append(h)
    # a comment is a record too: a DiTi switch after a comment is neither "at the start" nor "directly after a break"
    for name, seq in [("comment-first", ["comment", "set_diti"]), ("break-comment", ["commit", "comment", "set_diti"]),
                      ("label-first", ["labelled", "set_diti"]), ("break-only", ["commit", "set_diti", "comment", "commit", "set_diti"])]:
        lws = [gen.mk_plate("plate", 2, 2, 0, 10, [5, 0, 0, 0])]
        h = gen.header(f"emit/diti-{name}", dev, Fraction(1), 950, lws, flags={"comp": False, "norm": False, "robot": False})
        E2 = lambda fn, **a: {"op": "emit", "fn": fn, "args": a}
        ops = []
        for k in seq:
            if k == "comment":
                ops.append(E2("comment", text="note"))
            elif k == "commit":
                ops.append(E2("commit"))
            elif k == "labelled":
                ops.append({"op": "aspirate", "lw": 0, "wells": {"k": "l", "x": [[0, 0]]}, "vols": {"k": "s", "x": 0}, "label": "only a comment"})
            else:
                ops.append(E2("set_diti", idx=I(2)))
        h["ops"] = ops
        progs.append(h)
    # volume limits of the format and of the worklist
    lws = [gen.mk_plate("plate", 2, 2, 0, 10, [0, 0, 0, 0])]
    h = gen.header("emit/volume-limits", dev, Fraction(1), 10**7, lws, flags={"comp": False, "norm": False, "robot": False})
    E = lambda fn, **a: {"op": "emit", "fn": fn, "args": a}
    h["ops"] = [E("aspirate_well", rack="R", pos=I(1), vol={"cls": "cents", "v": 715827800}),
                E("aspirate_well", rack="R", pos=I(1), vol={"cls": "cents", "v": 715827900}),
                E("dispense_well", rack="R", pos=I(1), vol={"cls": "cents", "v": 715827801}),
                E("dispense_well", rack="R", pos=I(1), vol=12344), E("dispense_well", rack="R", pos=I(1), vol=12346),
                E("aspirate_well", rack="R", pos=I(1), vol=4), E("aspirate_well", rack="R", pos=I(1), vol=6),
                E("reagent_distribution", srack="S", s1=I(1), s2=I(8), drack="D", d1=I(1), d2=I(96), vol={"cls": "cents", "v": 715827900})]
    progs.append(h)
    return progs
