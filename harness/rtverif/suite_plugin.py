"""pytest plugin: record the executions of the repository's own test-suite as Trace_Twin traces.

"Validate the traces of the tests you already have": the suite exercises many code paths whose
assertions are weak. The plugin patches robotools classes *in the test process* (from /verif; no
file in /repo changes; active only when ROBOTOOLS_VERIF=1 and ROBOTOOLS_VERIF_TRACE_FILE is set),
logs every depth-0 call of the tracked operations with the projected state after it, and writes one
trace per (test, worklist). The traces are judged by TLC like any other.

Unit = 0.01 microlitre with snapping (test volumes are decimal numbers such as 20.7); compositions
are not compared (denominators are unbounded), everything else is.
"""
import functools
import json
import os
from fractions import Fraction

import numpy as np

ACTIVE = os.environ.get("ROBOTOOLS_VERIF") == "1" and bool(os.environ.get("ROBOTOOLS_VERIF_TRACE_FILE"))
UNIT = Fraction(1, 100)
_state = {"depth": 0, "rec": None, "all": []}


class Unsupported(Exception):
    pass


def _twin():
    from rtverif import twin

    return twin


class TestRecording:
    def __init__(self, nodeid):
        self.nodeid = nodeid
        self.labware = []  # objects in construction order
        self.lw_init = []  # projection at construction
        self.worklists = []  # objects
        self.events = []  # global sequence: (owner worklist index or None, event dict)
        self.prev_hist = []
        self.prev_recs = {}
        self.dead = None

    # ------------------------------------------------------------------ registration
    def add_labware(self, lw):
        tw = _twin()
        if any(x is lw for x in self.labware):
            return
        hist = lw.history
        comp, _ = tw.proj_comp(lw)
        vol = tw.proj_vol(lw, UNIT)
        mn, mx = tw.to_units(lw.min_volume, UNIT), tw.to_units(lw.max_volume, UNIT)
        if tw.SENT in vol or mn == tw.SENT or mx == tw.SENT or not isinstance(lw.name, str):
            raise Unsupported("labware limits or volumes off the 0.01 uL grid")
        rows = lw.volumes.shape[0]
        cols = lw.volumes.shape[1]
        self.labware.append(lw)
        self.lw_init.append({
            "name": lw.name,
            "g": {"rows": int(rows), "cols": int(cols), "vrows": int(lw.virtual_rows or 0)},
            "minv": mn,
            "maxv": mx,
            "grid": 0,
            "site": len(self.labware) - 1,
            "spec": {"init": list(vol), "named": False, "names": [{"h": False, "l": ""} for _ in vol]},
            # compositions are not compared in suite traces (unbounded denominators): logged as empty everywhere
            "init": {"vol": vol, "comp": [[] for _ in vol], "hn": len(hist), "last": tw.proj_entry(hist[-1][0], hist[-1][1], UNIT)},
        })
        self.prev_hist.append([(lab, np.array(arr, copy=True)) for lab, arr in hist])

    def wl_index(self, wl):
        for i, x in enumerate(self.worklists):
            if x is wl:
                return i
        self.worklists.append(wl)
        self.prev_recs[len(self.worklists) - 1] = list(wl)
        return len(self.worklists) - 1

    def lw_index(self, lw):
        for i, x in enumerate(self.labware):
            if x is lw:
                return i
        raise Unsupported("labware constructed outside the recorded test")

    # ------------------------------------------------------------------ projection
    def project(self, oplabel):
        tw = _twin()
        post = {"vol": [], "comp": [], "hn": [], "hsame": [], "last": [], "haswv": False, "obs": {"vol": True, "comp": True, "hist": True}}
        for k, lw in enumerate(self.labware):
            vol = tw.proj_vol(lw, UNIT)
            post["vol"].append(vol)
            post["comp"].append([[] for _ in vol])
            hist = lw.history
            prev = self.prev_hist[k]
            same = 0
            for (l0, a0), (l1, a1) in zip(prev, hist):
                if l0 == l1 and type(l0) == type(l1) and a0.shape == np.shape(a1) and np.array_equal(a0, a1):
                    same += 1
                else:
                    break
            post["hn"].append(len(hist))
            post["hsame"].append(same)
            post["last"].append(tw.proj_entry(hist[-1][0], hist[-1][1], UNIT, oplabel) if hist else
                                {"h": False, "l": "", "s": [], "base": False, "num": -1})
            self.prev_hist[k] = [(lab, np.array(arr, copy=True)) for lab, arr in hist]
        return post

    def new_records(self, wi):
        from rtverif import lexer

        wl = self.worklists[wi]
        cur = list(wl)
        prev = self.prev_recs[wi]
        n0 = len(prev)
        ok = len(cur) >= n0 and cur[:n0] == prev
        new = cur[n0:] if len(cur) >= n0 else []
        self.prev_recs[wi] = cur
        return [lexer.lex(r) for r in new], ok, len(cur)

    def in_sync(self):
        """The labware still are in the state this recording saw last (tests may poke private attributes)."""
        tw = _twin()
        last = self.events[-1][1]["post"]["vol"] if self.events else []
        for k, lw in enumerate(self.labware):
            seen = last[k] if k < len(last) else self.lw_init[k]["init"]["vol"]
            if tw.proj_vol(lw, UNIT) != seen:
                return False
        return True

    def log(self, owner, name, a, exc, oplabel):
        from rtverif.common import outcome_class

        post = self.project(oplabel if isinstance(oplabel, str) else None)
        ev = {"op": name, "a": a, "out": outcome_class(exc), "post": post, "cs": True, "tiesbig": False, "hasmodel": False}
        self.events.append((owner, ev))

    # ------------------------------------------------------------------ traces
    def traces(self):
        """One trace per worklist (a single base trace if the test used none)."""
        if self.dead or not self.events or (not self.labware and not self.worklists):
            return []
        out = []
        owners = list(range(len(self.worklists))) or [None]
        nl = len(self.labware)
        for wi in owners:
            wl = self.worklists[wi] if wi is not None else None
            dev = "base"
            maxv, autosplit, diti = 10**8, True, False
            if wl is not None:
                cls = type(wl).__mro__
                names = [c.__name__ for c in cls]
                dev = "evo" if "EvoWorklist" in names else "fluent" if "FluentWorklist" in names else "base"
                tw = _twin()
                maxv = tw.to_units(wl.max_volume, UNIT)
                if maxv == tw.SENT or maxv <= 0 or maxv * 1 >= 2**31:
                    continue
                autosplit, diti = bool(wl.auto_split), bool(wl.diti_mode)
            events = []
            prev_len = {w: 0 for w in range(len(self.worklists))}
            # records: replay the global sequence; events of other worklists (and labware created later) are "external"
            for owner, ev in self.events:
                e = dict(ev)
                post = dict(ev["post"])
                # labware constructed after this event: it does not exist yet; show its construction state
                for key in ("vol", "comp", "hn", "hsame", "last"):
                    lst = list(post[key])
                    for k in range(len(lst), nl):
                        init = self.lw_init[k]["init"]
                        lst.append({"vol": init["vol"], "comp": init["comp"], "hn": init["hn"], "hsame": init["hn"], "last": init["last"]}[key])
                    post[key] = lst
                e["post"] = post
                if owner == wi and owner is not None or (owner is None and ev.get("own_all")):
                    pass
                if owner is not None and owner == wi:
                    e["recs"], e["wprefix"], e["wlen"] = ev["recs"], ev["wprefix"], ev["wlen"]
                    prev_len[wi] = ev["wlen"]
                elif owner is None and ev["op"] in ("add", "remove"):
                    e["recs"], e["wprefix"], e["wlen"] = [], True, prev_len.get(wi, 0) if wi is not None else 0
                else:
                    e = {"op": "external", "a": {}, "out": ev["out"], "post": post, "recs": [], "wprefix": True,
                         "wlen": prev_len.get(wi, 0) if wi is not None else 0, "cs": True, "tiesbig": False, "hasmodel": False}
                events.append(e)
            hdr = {
                "id": f"suite::{self.nodeid}::wl{wi}",
                "dev": dev,
                "unitc": 1,
                "k": 100,
                "pair": False,
                "millis": False,
                "splitting": True,
                "ctorfail": False, "blind": {"has": False},
                "wl": {"maxv": maxv, "maxc": maxv, "autosplit": autosplit, "diti": diti},
                "flags": {"records": True, "robot": dev != "base", "comp": False, "norm": False, "file": False, "fullhist": False, "deep": False},
                "lw": self.lw_init,
                "events": events,
            }
            out.append(hdr)
        return out


# ----------------------------------------------------------------------------- argument projection
def _wells(x):
    from rtverif.calls import _parse_wid

    a = np.asarray(x)
    if a.dtype.kind not in "US":
        raise Unsupported("wells are not strings")
    if a.ndim == 0:
        return {"k": "s", "x": _parse_wid(str(a))}
    if a.ndim == 1:
        return {"k": "l", "x": [_parse_wid(str(e)) for e in a]}
    if a.ndim == 2:
        return {"k": "m", "x": [[_parse_wid(str(e)) for e in row] for row in a]}
    raise Unsupported("wells with more than two dimensions")


def _vols(x):
    tw = _twin()
    try:
        a = np.asarray(x, dtype=float)
    except Exception:
        raise Unsupported("volumes are not numbers")

    def u(v):
        r = tw.to_units(v, UNIT)
        if r == tw.SENT:
            raise Unsupported("volume off the 0.01 uL grid")
        return r

    if a.ndim == 0:
        return {"k": "s", "x": u(a)}
    if a.ndim == 1:
        return {"k": "l", "x": [u(e) for e in a]}
    if a.ndim == 2:
        return {"k": "m", "x": [[u(e) for e in row] for row in a]}
    raise Unsupported("volumes with more than two dimensions")


def _kw(kwargs):
    tw = _twin()
    from robotools import Tip

    kw = {}
    for py, k in (("liquid_class", "lc"), ("rack_id", "rackid"), ("rack_type", "racktype"), ("tube_id", "tube"), ("forced_rack_type", "frt")):
        if py in kwargs:
            kw[k] = kwargs[py]
    log = tw.kw_log({k: v for k, v in kw.items()})

    def sym(t):
        if isinstance(t, Tip):
            return {"k": "any", "v": 0} if t == Tip.Any else {"k": "tip", "v": [1, 2, 4, 8, 16, 32, 64, 128].index(int(t)) + 1}
        if isinstance(t, (int, np.integer)) and not isinstance(t, bool):
            return {"k": "int", "v": int(t)}
        return {"k": "bad", "v": 0}

    if "tip" in kwargs:
        t = kwargs["tip"]
        if isinstance(t, (list, tuple, set, np.ndarray)):
            log["tip"] = {"k": "coll", "s": {"k": "any", "v": 0}, "x": [sym(e) for e in t]}
        else:
            log["tip"] = {"k": "one", "s": sym(t), "x": []}
    extra = set(kwargs) - {"liquid_class", "rack_id", "rack_type", "tube_id", "forced_rack_type", "tip"}
    if extra:
        raise Unsupported(f"unexpected keyword arguments {sorted(extra)}")
    return log


def _label(label):
    tw = _twin()
    if label is not None and not isinstance(label, str):
        raise Unsupported("label is not a string")
    if isinstance(label, str) and (label in ("first", "last") or ";" in label):
        raise Unsupported("label outside the generated domain")
    return tw.label_arg(label)


# ----------------------------------------------------------------------------- wrappers
def _wrap(cls, name, describe):
    orig = cls.__dict__.get(name)
    if orig is None:
        return

    @functools.wraps(orig)
    def wrapper(self, *args, **kwargs):
        rec = _state["rec"]
        if rec is None or rec.dead or _state["depth"] > 0:
            _state["depth"] += 1
            try:
                return orig(self, *args, **kwargs)
            finally:
                _state["depth"] -= 1
        try:
            if not rec.in_sync():
                raise Unsupported("labware state was changed outside the public API")
            owner, opname, a, oplabel = describe(rec, self, args, kwargs)
        except Unsupported as e:
            rec.dead = f"{name}: {e}"
            return orig(self, *args, **kwargs)
        except Exception as e:  # arguments the projection cannot read (tests of argument validation)
            rec.dead = f"{name}: {type(e).__name__}"
            return orig(self, *args, **kwargs)
        exc = None
        _state["depth"] += 1
        try:
            return orig(self, *args, **kwargs)
        except Exception as e:  # noqa
            exc = e
            raise
        finally:
            _state["depth"] -= 1
            try:
                rec.log(owner, opname, a, exc, oplabel)
                if owner is not None:
                    ev = rec.events[-1][1]
                    ev["recs"], ev["wprefix"], ev["wlen"] = rec.new_records(owner)
            except Exception as e:  # noqa
                rec.dead = f"projection failed after {name}: {type(e).__name__}: {e}"

    setattr(cls, name, wrapper)


def _bind(orig, self, args, kwargs):
    import inspect

    sig = inspect.signature(orig)
    ba = sig.bind(self, *args, **kwargs)
    ba.apply_defaults()
    return ba.arguments


def install():
    import robotools as rt
    from rtverif import twin

    twin.SNAP = True  # decimal test volumes (20.7, 2.5, ...) are snapped to the 0.01 uL grid
    from robotools.liquidhandling.labware import Labware
    from robotools.worklists.base import BaseWorklist

    orig_init = Labware.__init__

    @functools.wraps(orig_init)
    def lw_init(self, *args, **kwargs):
        _state["depth"] += 1
        try:
            orig_init(self, *args, **kwargs)
        finally:
            _state["depth"] -= 1
        rec = _state["rec"]
        if rec is not None and not rec.dead and _state["depth"] == 0:
            try:
                rec.add_labware(self)
            except Exception as e:  # noqa
                rec.dead = f"labware: {e}"

    Labware.__init__ = lw_init
    # Trough.__init__ calls Labware.__init__ via super(): depth is 0 there as well, registration happens once (identity check)

    def d_labware(opname):
        def describe(rec, self, args, kwargs):
            arg = _bind(getattr(Labware, "__orig_" + opname), self, args, kwargs)
            comps = arg.get("compositions")
            if comps is not None:
                raise Unsupported("explicit compositions")
            a = {"lw": rec.lw_index(self) + 1, "wells": _wells(arg["wells"]), "vols": _vols(arg["volumes"]), "label": _label(arg.get("label")),
                 "labelok": True, "hascomps": False, "comps": [], "kw": _twin().kw_log({})}
            return None, opname, a, arg.get("label")

        return describe

    for opname in ("add", "remove"):
        setattr(Labware, "__orig_" + opname, Labware.__dict__[opname])
        _wrap(Labware, opname, d_labware(opname))

    def d_aspdisp(opname, cls):
        def describe(rec, self, args, kwargs):
            arg = _bind(getattr(cls, "__orig_" + opname), self, args, kwargs)
            if arg.get("compositions") is not None:
                raise Unsupported("explicit compositions")
            kw = dict(arg.get("kwargs") or {})
            a = {"lw": rec.lw_index(arg["labware"]) + 1, "wells": _wells(arg["wells"]), "vols": _vols(arg["volumes"]),
                 "label": _label(arg.get("label")), "labelok": True, "hascomps": False, "comps": [], "kw": _kw(kw)}
            return rec.wl_index(self), opname, a, arg.get("label")

        return describe

    for opname in ("aspirate", "dispense"):
        setattr(BaseWorklist, "__orig_" + opname, BaseWorklist.__dict__[opname])
        _wrap(BaseWorklist, opname, d_aspdisp(opname, BaseWorklist))

    def d_transfer(cls):
        def describe(rec, self, args, kwargs):
            arg = _bind(getattr(cls, "__orig_transfer"), self, args, kwargs)
            kw = dict(arg.get("kwargs") or {})
            ws = arg.get("wash_scheme")
            if ws is None:
                # deprecated spelling; the documented meaning is device specific (DeprecationWarning texts of both classes)
                ws = "reuse" if cls is rt.EvoWorklist else "flush"
            a = {"src": rec.lw_index(arg["source"]) + 1, "dst": rec.lw_index(arg["destination"]) + 1, "sw": _wells(arg["source_wells"]),
                 "dw": _wells(arg["destination_wells"]), "vols": _vols(arg["volumes"]), "label": _label(arg.get("label")), "labelok": True,
                 "wash": str(ws), "pby": arg.get("partition_by"), "kw": _kw(kw)}
            if not isinstance(a["pby"], str) or str(ws) not in ("1", "2", "3", "4", "flush", "reuse"):
                raise Unsupported("wash scheme / partition mode outside the generated domain")
            return rec.wl_index(self), "transfer", a, arg.get("label")

        return describe

    for cls in (rt.EvoWorklist, rt.FluentWorklist):
        if "transfer" in cls.__dict__:
            setattr(cls, "__orig_transfer", cls.__dict__["transfer"])
            _wrap(cls, "transfer", d_transfer(cls))

    def d_distribute(rec, self, args, kwargs):
        arg = _bind(BaseWorklist.__orig_distribute, self, args, kwargs)
        tw = _twin()
        vol = tw.to_units(arg["volume"], UNIT)
        if vol == tw.SENT or not isinstance(arg["source_column"], (int, np.integer)):
            raise Unsupported("distribute arguments off the grid")
        texts = {"lc": arg["liquid_class"], "sid": arg["src_rack_id"], "stype": arg["src_rack_type"], "did": arg["dst_rack_id"], "dtype": arg["dst_rack_type"]}
        lab = arg["label"]
        if not isinstance(lab, str):
            raise Unsupported("distribute label is not a string")
        a = {"src": rec.lw_index(arg["source"]) + 1, "col": int(arg["source_column"]), "dst": rec.lw_index(arg["destination"]) + 1,
             "dw": _wells(arg["destination_wells"]), "vol": vol, "md": arg["multi_disp"], "reuse": arg["diti_reuse"], "label": _label(lab),
             "labelok": True, "dir": arg["direction"],
             "textok": all(isinstance(v, str) and ";" not in v and len(v) <= 32 for v in texts.values())}
        if not all(isinstance(v, str) for v in texts.values()) or not isinstance(a["md"], int) or not isinstance(a["reuse"], int) or not isinstance(a["dir"], str):
            raise Unsupported("distribute arguments outside the generated domain")
        a.update(texts)
        return rec.wl_index(self), "distribute", a, lab

    BaseWorklist.__orig_distribute = BaseWorklist.__dict__["distribute"]
    _wrap(BaseWorklist, "distribute", d_distribute)

    # records appended directly through the low level emitters (and the EVO script commands): logged as raw
    # events so that they are not attributed to the next tracked operation; their own grammar is judged by C09.wellformed
    def d_raw(opname):
        def describe(rec, self, args, kwargs):
            return rec.wl_index(self), "rawemit", {"fn": opname}, None

        return describe

    def _numspec(x):
        if isinstance(x, (int, np.integer)) and not isinstance(x, bool) and abs(int(x)) < 2**31:
            return {"cls": "int", "v": int(x)}
        raise Unsupported("number outside the generated domain")

    def d_emit(opname):
        """The simple emitters are judged like the generated `emit` operations (C09 clauses) when their arguments can be
        projected; otherwise the call stays a raw event."""
        def describe(rec, self, args, kwargs):
            wi = rec.wl_index(self)
            try:
                arg = _bind(getattr(BaseWorklist, "__orig_" + opname), self, args, kwargs)
                if opname == "comment":
                    c = arg["comment"]
                    if c is not None and not isinstance(c, str):
                        raise Unsupported("comment is not a string")
                    a = {"fn": "comment", "isnone": c is None, "sep": isinstance(c, str) and ";" in c,
                         "lines": [ln.strip() for ln in c.split("\n")] if isinstance(c, str) and c else []}
                    json.dumps(a).encode("ascii")
                elif opname == "wash":
                    a = {"fn": "wash", "given": True, "n": _numspec(arg["scheme"])}
                elif opname == "set_diti":
                    a = {"fn": "set_diti", "n": _numspec(arg["diti_index"])}
                else:
                    a = {"fn": opname}
                return wi, "emit", a, None
            except Exception:  # noqa
                return wi, "rawemit", {"fn": opname}, None

        return describe

    for opname in ("comment", "wash", "decontaminate", "flush", "commit", "set_diti"):
        setattr(BaseWorklist, "__orig_" + opname, BaseWorklist.__dict__[opname])
        _wrap(BaseWorklist, opname, d_emit(opname))
    for opname in ("aspirate_well", "dispense_well", "reagent_distribution"):
        _wrap(BaseWorklist, opname, d_raw(opname))
    for opname in ("evo_aspirate", "evo_dispense", "evo_wash"):
        _wrap(rt.EvoWorklist, opname, d_raw(opname))


# ----------------------------------------------------------------------------- pytest hooks
def pytest_configure(config):
    if ACTIVE:
        install()


def pytest_runtest_setup(item):
    if ACTIVE:
        _state["rec"] = TestRecording(item.nodeid)
        _state["depth"] = 0


def pytest_runtest_teardown(item):
    if ACTIVE and _state["rec"] is not None:
        rec = _state["rec"]
        _state["rec"] = None
        try:
            trs = rec.traces()
        except Exception as e:  # noqa
            trs, rec.dead = [], f"trace construction failed: {type(e).__name__}: {e}"
        _state["all"].append({"test": rec.nodeid, "dead": rec.dead, "traces": trs, "events": len(rec.events)})


def pytest_sessionfinish(session, exitstatus):
    if ACTIVE:
        with open(os.environ["ROBOTOOLS_VERIF_TRACE_FILE"], "w") as f:
            json.dump(_state["all"], f, ensure_ascii=True)
