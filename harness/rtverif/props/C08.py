"""C08 - well numbering is column-major, 1-based, device specific for troughs."""
from ..drivers import targeted
from ._twin import replay_programs, run_programs
from ._util import replay_calls, run_calls


def geometries(tier, rng):
    plates, troughs = [], []
    if tier == "quick":
        rows = [1, 2, 3, 8, 16, 26]
        cols = [1, 2, 3, 9, 10, 12, 24, 48, 99, 100]
        vrs = [1, 2, 8, 26]
        tcs = [1, 2, 12, 24]
        # a few seeded extra shapes so that different seeds look at different geometries
        for _ in range(12):
            plates.append((rng.randint(1, 26), rng.randint(1, 120)))
            troughs.append((rng.randint(1, 26), rng.randint(1, 24)))
    else:
        rows = list(range(1, 27))
        cols = list(range(1, 31)) + [48, 99, 100, 120]
        vrs = list(range(1, 27))
        tcs = list(range(1, 25))
    plates += [(r, c) for r in rows for c in cols]
    troughs += [(v, c) for v in vrs for c in tcs]
    ps = [{"x": "geom", "rows": r, "cols": c, "vrows": 0} for r, c in sorted(set(plates))]
    ps += [{"x": "geom", "rows": 1, "cols": c, "vrows": v} for v, c in sorted(set(troughs))]
    # troughs built with Labware(..., virtual_rows=v): the same numbering rules apply
    ps += [{"x": "geom", "rows": 1, "cols": c, "vrows": v, "via": "labware"} for v, c in sorted(set(troughs))[:: (3 if tier == "quick" else 1)]]
    return ps


def check(run, tier):
    from ..common import rng

    run.rule = (
        "model: every geometry of MC_Geom is one state, all numbering lemmas are invariants; implementation: one call "
        "record per labware geometry holding the observed EVO/Fluent numbers, index map, positions and id array of "
        "every well, judged by Trace_Calls against EvoPos/FluentPos/RealRC/IdArray; distinct = distinct geometries "
        "(all non-trivial: every one has at least one well); out-of-range and malformed ids through aspirate/dispense/transfer/"
        "distribute on both devices judged by Trace_Twin (C08.badwell: raises, no pipetting record, volumes unchanged)"
    )
    run.mc("MC_Geom", "MC_Geom" if tier == "quick" else "MC_Geom_thorough")
    run.tlaps("PosInjective")  # unbounded: injectivity and range of the numbering for every number of rows / columns
    run_calls(run, geometries(tier, rng("C08")), batch=60 if tier == "quick" else 40)
    # one worklist, many short-lived labware of changing geometry (nothing is remembered under the identity of a dead object)
    rl = rng("C08-life")
    life = []
    for dev in ("evo", "fluent"):
        for _ in range(6 if tier == "quick" else 60):
            geoms = []
            for _ in range(12):
                if rl.random() < 0.4:
                    V, C = rl.randint(1, 8), rl.randint(1, 4)
                    geoms.append({"rows": 1, "cols": C, "vrows": V, "well": [rl.randrange(V), rl.randrange(C)]})
                else:
                    R, C = rl.randint(1, 16), rl.randint(1, 24)
                    geoms.append({"rows": R, "cols": C, "vrows": 0, "well": [rl.randrange(R), rl.randrange(C)]})
            # the same well id on consecutive labware of different geometry
            geoms += [{"rows": 8, "cols": 3, "vrows": 0, "well": [1, 1]}, {"rows": 4, "cols": 6, "vrows": 0, "well": [1, 1]}, {"rows": 1, "cols": 2, "vrows": 4, "well": [1, 1]},
                      {"rows": 16, "cols": 24, "vrows": 0, "well": [1, 1]}]
            life.append({"x": "poslife", "dev": dev, "geoms": geoms})
    run_calls(run, life)
    # well ids that do not exist: every record emitting operation must raise without emitting a record
    run_programs(run, targeted.badwell_programs("evo") + targeted.badwell_programs("fluent"))
    run.extra["exhaustive"] = tier == "thorough"
    run.assumptions += [
        "the harness formats well identifiers itself (row letter + two-digit column) and trusts its own row-major enumeration",
        "unbounded injectivity of the numbering is proved separately with TLAPS (spec/proofs), TLC covers rows<=26, cols<=30",
    ]


def replay(run, rp):
    from ._twin import replay_any

    replay_any(run, rp)
