"""C08 - well numbering is column-major, 1-based, device specific for troughs."""
from ..drivers import targeted
from ._twin import replay_programs, run_programs
from ._util import replay_calls, run_calls


def geometries(tier, rng):
    plates, troughs = [], []
    if tier == "quick":
        rows = [1, 2, 3, 8, 16, 26]
        cols = [1, 2, 3, 9, 10, 12, 24, 48, 99, 100]
        vrs = [1, 2, 8, 26]
        tcs = [1, 2, 12, 24]
        # a few seeded extra shapes so that different seeds look at different geometries
        for _ in range(12):
            plates.append((rng.randint(1, 26), rng.randint(1, 120)))
            troughs.append((rng.randint(1, 26), rng.randint(1, 24)))
    else:
        rows = list(range(1, 27))
        cols = list(range(1, 31)) + [48, 99, 100, 120]
        vrs = list(range(1, 27))
        tcs = list(range(1, 25))
    plates += [(r, c) for r in rows for c in cols]
    troughs += [(v, c) for v in vrs for c in tcs]
    ps = [{"x": "geom", "rows": r, "cols": c, "vrows": 0} for r, c in sorted(set(plates))]
    ps += [{"x": "geom", "rows": 1, "cols": c, "vrows": v} for v, c in sorted(set(troughs))]
    # troughs built with Labware(..., virtual_rows=v): the same numbering rules apply
    ps += [{"x": "geom", "rows": 1, "cols": c, "vrows": v, "via": "labware"} for v, c in sorted(set(troughs))[:: (3 if tier == "quick" else 1)]]
    return ps


def check(run, tier):
    from ..common import rng

    run.rule = (
        "model: every geometry of MC_Geom is one state, all numbering lemmas are invariants; implementation: one call "
        "record per labware geometry holding the observed EVO/Fluent numbers, index map, positions and id array of "
        "every well, judged by Trace_Calls against EvoPos/FluentPos/RealRC/IdArray; distinct = distinct geometries "
        "(all non-trivial: every one has at least one well); out-of-range and malformed ids through aspirate/dispense/transfer/"
        "distribute on both devices judged by Trace_Twin (C08.badwell: raises, no pipetting record, volumes unchanged)"
    )
    run.mc("MC_Geom", "MC_Geom" if tier == "quick" else "MC_Geom_thorough")
    run.tlaps("PosInjective")  # unbounded: injectivity and range of the numbering for every number of rows / columns
    run_calls(run, geometries(tier, rng("C08")), batch=60 if tier == "quick" else 40)
    # one worklist, many short-lived labware of changing geometry (nothing is remembered under the identity of a dead object)
    rl = rng("C08-life")
    life = []
    for dev in ("evo", "fluent"):
        for _ in range(6 if tier == "quick" else 60):
            geoms = []
            for _ in range(12):
                if rl.random() < 0.4:
                    V, C = rl.randint(1, 8), rl.randint(1, 4)
                    geoms.append({"rows": 1, "cols": C, "vrows": V, "well": [rl.randrange(V), rl.randrange(C)]})
                else:
                    R, C = rl.randint(1, 16), rl.randint(1, 24)
                    geoms.append({"rows": R, "cols": C, "vrows": 0, "well": [rl.randrange(R), rl.randrange(C)]})
            # the same well id on consecutive labware of different geometry
            geoms += [{"rows": 8, "cols": 3, "vrows": 0, "well": [1, 1]}, {"rows": 4, "cols": 6, "vrows": 0, "well": [1, 1]}, {"rows": 1, "cols": 2, "vrows": 4, "well": [1, 1]},
                      {"rows": 16, "cols": 24, "vrows": 0, "well": [1, 1]}]
            life.append({"x": "poslife", "dev": dev, "geoms": geoms})
    run_calls(run, life)
    # well ids that do not exist: every record emitting operation must raise without emitting a record
    run_programs(run, targeted.badwell_programs("evo") + targeted.badwell_programs("fluent"))
    # the numbers that end up in the records: aspirate / dispense / reagent distributions on troughs of 1 .. 26 virtual rows
    # and plates of many shapes, both devices (C08.emitted, C08.rrange)
    from fractions import Fraction

    from .. import gen
    from ..drivers import programs

    L = lambda ws: {"k": "l", "x": [list(w) for w in ws]}
    S = lambda x: {"k": "s", "x": x}
    progs = []
    rt = rng("C08-twin")
    for dev in ("evo", "fluent"):
        for V in ((1, 2, 8, 9, 12, 26) if tier == "quick" else range(1, 27)):
            for C in (1, 3):
                lws = [gen.mk_plate("plate", 8, 12, 0, 300, [0] * 96), gen.mk_trough("trough", V, C, 0, 9000, [4000] * C)]
                h = gen.header(f"C08/trough-{V}x{C}", dev, Fraction(1), 950, lws, flags={"comp": False, "norm": False})
                rows = sorted({0, V // 2, V - 1})
                h["ops"] = [{"op": "aspirate", "lw": 1, "wells": L([(r_, C - 1) for r_ in rows]), "vols": S(10), "label": "from the last column"},
                            {"op": "dispense", "lw": 1, "wells": L([(r_, 0) for r_ in reversed(rows)]), "vols": S(5), "label": "into the first"},
                            {"op": "distribute", "src": 1, "col": C - 1, "dst": 0, "dw": L([(1, 0), (2, 0), (5, 0), (0, 1)]), "vol": 20, "label": "to a plate"},
                            {"op": "distribute", "src": 1, "col": 0, "dst": 0, "dw": L([(r_, 11) for r_ in range(8)]), "vol": 10, "label": "a whole column"}]
                if C > 1:
                    h["ops"].append({"op": "distribute", "src": 1, "col": 0, "dst": 1, "dw": L([(0, 1), (V - 1, 2)]), "vol": 7, "label": "trough to trough"})
                h["ops"].append({"op": "transfer", "src": 1, "sw": L([(V - 1, C - 1), (0, 0)]), "dst": 0, "dw": L([(7, 11), (0, 0)]), "vols": {"k": "l", "x": [3, 4]}, "label": "corners", "wash": 1})
                progs.append(h)
    for i in range(40 if tier == "quick" else 800):
        dev = "evo" if i % 2 == 0 else "fluent"
        progs.append(programs.worklist_program(rt, f"C08/r{i}", dev, rt.randint(2, 5), maxunits=40, wlmax=40, comps=False, big_geom=True, small=False,
                                               weights={"transfer": 1, "distribute": 2, "aspirate": 2, "dispense": 2, "add": 0, "remove": 0}))
    run_programs(run, progs)
    run.extra["exhaustive"] = tier == "thorough"
    run.assumptions += [
        "the harness formats well identifiers itself (row letter + two-digit column) and trusts its own row-major enumeration",
        "unbounded injectivity of the numbering is proved separately with TLAPS (spec/proofs), TLC covers rows<=26, cols<=30",
    ]


def replay(run, rp):
    from ._twin import replay_any

    replay_any(run, rp)
