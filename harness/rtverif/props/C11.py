"""C11 - the labware history is append-only, condensed per operation, and truthful."""
from fractions import Fraction

from ..common import rng
from ..drivers import behaviours
from ..drivers import programs, targeted
from ._twin import replay_programs, run_programs, run_suite


def check(run, tier):
    run.rule = (
        "model: MC_Twin, step check InvHist (prefix preserved, one entry per participating labware, newest = current) "
        "and the label rule in InvPlan; implementation: histories of successful add/remove/aspirate/dispense/transfer/"
        "distribute with zero volumes, all-zero transfers, split volumes, same-labware transfers and labels present or "
        "absent, judged by Trace_Twin (C11.prefix via deep copies of earlier entries, C11.count, C11.newest, C11.label, "
        "C11.report, C11.snapshots); distinct = distinct programs"
    )
    q = tier == "quick"
    run.mc("MC_Twin", "MC_Twin_mixed")
    run.mc("MC_Twin", "MC_Twin_labware")
    if not q:
        run.mc("MC_Twin", "MC_Twin_transfer")
    r = rng("C11")
    progs = targeted.worklist_programs("evo") + targeted.worklist_programs("fluent") + targeted.history_programs("evo") + targeted.history_programs("fluent")
    progs += targeted.round2_programs("evo") + targeted.round2_programs("fluent")
    n = 150 if q else 3000
    for i in range(n):
        dev = "evo" if i % 2 == 0 else "fluent"
        p = programs.worklist_program(r, f"C11/r{i}", dev, r.randint(3, 12), unit=Fraction(1), maxunits=40, wlmax=r.choice([2, 3, 5]),
                                      comps=False, direct=True, flags={"fullhist": True}, autosplit=(i % 4 != 1))
        progs.append(p)
    # histories with rejected operations in between: what was logged before stays as it was (C11.keeps, C11.fullkeeps)
    for i in range(40 if q else 1000):
        dev = "evo" if i % 2 == 0 else "fluent"
        progs.append(programs.worklist_program(r, f"C11/f{i}", dev, r.randint(4, 10), unit=Fraction(1), maxunits=20, wlmax=r.choice([2, 3, 5]),
                                               comps=False, direct=True, fault=0.3, flags={"fullhist": True}))
    # two different labware objects that carry the same name (a transfer between them is not a same-labware transfer)
    for dev in ("evo", "fluent"):
        progs += [p for p in targeted.history_programs(dev, same_name=True)]
    # specification -> code: behaviours enumerated by TLC on the bounded model, replayed on the implementation
    for cfg in ("MC_TwinGen_mixed2",) if q else ("MC_TwinGen_mixed2", "MC_TwinGen_mixed3"):
        mprogs, res = behaviours.generate(cfg, timeout=3000)
        if not mprogs:
            run.machinery_errors.append(f"behaviour generation with {cfg} failed: {res.errors[:2]}")
        run.states += res.distinct
        run.transitions += res.generated
        if q and len(mprogs) > 400:
            # quick tier: a seeded sample of the enumerated behaviours (thorough replays all of them)
            k = len(mprogs) // 400 + 1
            mprogs = mprogs[r.randrange(k)::k]
        # what the enumerated behaviours contain (non-vacuity of the model: rejected operations are transitions too)
        stats = run.extra.setdefault("model_outcomes", {})
        for mp in mprogs:
            for mo in mp["ops"]:
                key = mo["op"] + ":" + mo["model"]["out"]
                stats[key] = stats.get(key, 0) + 1
        run.extra.setdefault("model_behaviours_replayed", 0)
        run.extra["model_behaviours_replayed"] += len(mprogs)
        progs += mprogs
    run_programs(run, progs)

    # the repository's own test-suite, recorded and judged step by step
    run_suite(run)


def replay(run, rp):
    from ._twin import replay_any

    replay_any(run, rp)
