"""Helpers shared by the property modules."""
import json

from .. import calls


def sig_call(item, clause, at):
    """Signature of a failing call: executor plus its identifying tag (no volatile data)."""
    if not item:
        return ""
    return f"{item.get('fn')}:{item.get('id')}"


def run_calls(run, params, batch=4000, sig_fn=sig_call, nontrivial=lambda rec: True):
    """Execute the given executor parameters on the real code and let Trace_Calls judge them."""
    recs = []
    for p in params:
        rec = calls.execute(p)
        recs.append(rec)
        run.note_case(json.dumps(p, sort_keys=True, default=str), nontrivial(rec))
    # history independence: the helpers are functions of their arguments.  A seeded sample of the calls is made again,
    # in shuffled order, in the same process (after every other call has happened) and judged like the first time.
    if len(params) > 1 and not getattr(run, "is_replay", False):
        from ..common import rng

        r = rng("again-" + str(len(params)))
        again = r.sample(list(params), min(len(params), max(50, len(params) // 5), 800))
        for p in again:
            rec = calls.execute(p)
            rec["id"] = str(rec.get("id")) + " (again)"
            recs.append(rec)
        run.extra["calls_repeated_in_shuffled_order"] = run.extra.get("calls_repeated_in_shuffled_order", 0) + len(again)
    for k in range(0, len(recs), batch):
        chunk = recs[k : k + batch]
        payload = {"calls": [{k2: v for k2, v in c.items() if k2 != "re"} for c in chunk], "expect_judged": len(chunk)}
        run.validate("Trace_Calls", payload, chunk, sig_fn=sig_fn)
    run.traces += len(recs)
    for r in recs[:: max(1, len(recs) // 3)][:3]:
        s = {k: v for k, v in r.items() if k != "re"}
        txt = json.dumps(s, default=str)
        run.sample(json.loads(txt) if len(txt) < 1500 else {"fn": r.get("fn"), "id": r.get("id"), "params": r.get("re")})
    return recs


def replay_calls(run, rp):
    item = rp["item"]
    run.is_replay = True
    return run_calls(run, [item["re"]])
