"""C01 - the emitted worklist reproduces the tracked labware state when executed."""
from fractions import Fraction

from ..common import rng
from ..drivers import behaviours
from ..drivers import programs, targeted
from ._twin import replay_programs, run_programs, run_suite


def check(run, tier):
    run.rule = (
        "model: MC_Twin (plate 2x2 + trough 2x2) explores every operation of the family alphabets from three initial "
        "states, invariant InvTwinEqualsRobot = the RTRobot interpreter executing the worklist reproduces the twin; "
        "implementation: targeted + seeded random programs of successful aspirate/dispense/transfer/distribute on both "
        "devices, every step judged by Trace_Twin (C01.robot, C01.address, C01.rsrc, C01.rdst, C01.appendonly: robot "
        "replay of the decoded records from the logged pre-state equals the logged post-state; records address rack and "
        "device position of the named wells); distinct = distinct programs, non-trivial = some step moved liquid or emitted a record"
    )
    q = tier == "quick"
    run.mc("MC_Twin", "MC_Twin_mixed")
    run.mc("MC_Twin", "MC_Twin_distribute_fluent")
    if not q:
        run.mc("MC_Twin", "MC_Twin_transfer")
        run.mc("MC_Twin", "MC_Twin_mixed_fluent_d4", timeout=3000)
    r = rng("C01")
    progs = targeted.worklist_programs("evo") + targeted.worklist_programs("fluent")
    progs += targeted.round2_programs("evo") + targeted.round2_programs("fluent")
    progs += targeted.config_programs("evo") + targeted.config_programs("fluent")
    from ..drivers import files
    progs += [p for dev in ("evo", "fluent") for p in files.targeted_programs(dev) if "latin1" in p["id"] or "with-" in p["id"]]
    progs += targeted.rounding_programs("evo", r) + targeted.rounding_programs("fluent", r)
    # argument shapes: tables, broadcasts (one volume for several wells in every spelling): a record for every booked well
    progs += [p for dev in ("evo", "fluent") for p in targeted.shape_programs(dev) if "mismatch" not in p["id"]]
    n = 150 if q else 3000
    for i in range(n):
        dev = "evo" if i % 2 == 0 else "fluent"
        kind = i % 5
        if kind == 0:
            p = programs.worklist_program(r, f"C01/r{i}", dev, r.randint(1, 8), unit=Fraction(1, 4), maxunits=40, wlmax=r.choice([4, 7, 12]), comps=False)
        elif kind == 1:
            p = programs.worklist_program(r, f"C01/r{i}", dev, r.randint(1, 6), unit=Fraction(1), maxunits=4000, wlmax=r.choice([950, 1000]),
                                          comps=False, big_geom=True)
        else:
            p = programs.worklist_program(r, f"C01/r{i}", dev, r.randint(1, 8))
        progs.append(p)
    # specification -> code: behaviours enumerated by TLC on the bounded model, replayed on the implementation
    for cfg in ("MC_TwinGen_mixed2_fluent",) if q else ("MC_TwinGen_mixed2_fluent", "MC_TwinGen_mixed3", "MC_TwinGen_transfer1"):
        mprogs, res = behaviours.generate(cfg, timeout=3000)
        if not mprogs:
            run.machinery_errors.append(f"behaviour generation with {cfg} failed: {res.errors[:2]}")
        run.states += res.distinct
        run.transitions += res.generated
        if q and len(mprogs) > 400:
            # quick tier: a seeded sample of the enumerated behaviours (thorough replays all of them)
            k = len(mprogs) // 400 + 1
            mprogs = mprogs[r.randrange(k)::k]
        # what the enumerated behaviours contain (non-vacuity of the model: rejected operations are transitions too)
        stats = run.extra.setdefault("model_outcomes", {})
        for mp in mprogs:
            for mo in mp["ops"]:
                key = mo["op"] + ":" + mo["model"]["out"]
                stats[key] = stats.get(key, 0) + 1
        run.extra.setdefault("model_behaviours_replayed", 0)
        run.extra["model_behaviours_replayed"] += len(mprogs)
        progs += mprogs
    run_programs(run, progs)
    run.assumptions += [
        "volumes on an exact grid (k x unit) so that float arithmetic is exact; record lexer and projection are trusted",
        "duplicate destination positions in distribute() are not generated",
    ]

    # the repository's own test-suite, recorded and judged step by step
    run_suite(run)


def replay(run, rp):
    from ._twin import replay_any

    replay_any(run, rp)
