"""C12 - the EVO well-selection string is a faithful, decodable bitmap."""
import itertools

from ..common import rng
from ._util import replay_calls, run_calls


def cases(tier, r):
    ps = []
    q = tier == "quick"
    maxw = 10 if q else 14
    for R in range(1, maxw + 1):
        for C in range(1, maxw + 1):
            if R * C > maxw:
                continue
            wells = [(rr, cc) for cc in range(C) for rr in range(R)]
            for m in range(2 ** (R * C)):
                sel = [wells[i] for i in range(R * C) if m >> i & 1]
                ps.append({"x": "sel", "rows": R, "cols": C, "sel": sel, "tag": str(m), "nd": m % 2 == 0})
                if len(sel) >= 2 and R > 1 and C > 1:
                    # the same subset listed row by row (the order of `wells[mask]`), bottom-up, and - small subsets - in every order:
                    # the selection is the set of the named wells, whatever their order
                    rowmajor = sorted(sel)
                    if rowmajor != sel:
                        ps.append({"x": "sel", "rows": R, "cols": C, "sel": rowmajor, "tag": f"{m}-rowmajor", "nd": m % 2 == 1})
                    if m % 3 == 0:
                        ps.append({"x": "sel", "rows": R, "cols": C, "sel": sel[::-1], "tag": f"{m}-reversed"})
                    if len(sel) == 3 and (R * C <= 8 or not q):
                        import itertools

                        for perm in itertools.permutations(sel):
                            if list(perm) not in (sel, rowmajor):
                                ps.append({"x": "sel", "rows": R, "cols": C, "sel": list(perm), "tag": f"{m}-perm"})
    # all single-well and full selections of every geometry (quick: a covering subset)
    Rs = range(1, 27) if not q else [1, 2, 3, 7, 8, 16, 26]
    Cs = range(1, 49) if not q else [1, 2, 5, 7, 12, 24, 48]
    for R in Rs:
        for C in Cs:
            wells = [(rr, cc) for cc in range(C) for rr in range(R)]
            ps.append({"x": "sel", "rows": R, "cols": C, "sel": wells, "tag": "full"})
            ps.append({"x": "sel", "rows": R, "cols": C, "sel": [], "tag": "empty"})
            singles = wells if not q else [wells[0], wells[-1], wells[len(wells) // 2], wells[min(6, len(wells) - 1)], wells[min(7, len(wells) - 1)]]
            if not q and len(wells) > 60:
                singles = [wells[i] for i in sorted(set([0, 6, 7, 13, 14, len(wells) - 1] + [r.randrange(len(wells)) for _ in range(20)]))]
            for w in singles:
                ps.append({"x": "sel", "rows": R, "cols": C, "sel": [w], "tag": f"single{w}"})
    for i in range(200 if q else 2000):
        R, C = r.randint(1, 26), r.randint(1, 48)
        wells = [(rr, cc) for cc in range(C) for rr in range(R)]
        k = r.randint(1, min(len(wells), 40))
        ps.append({"x": "sel", "rows": R, "cols": C, "sel": r.sample(wells, k), "tag": f"rnd{i}", "nd": True})
    # a well may be named more than once (e.g. the output of get_trough_wells): the selection is the SET of named wells
    for i in range(60 if q else 600):
        R, C = r.choice([(8, 1), (8, 12), (4, 2), (1, 8), (3, 5), (16, 24)])
        wells = [(rr, cc) for cc in range(C) for rr in range(R)]
        base = r.sample(wells, r.randint(1, min(len(wells), 9)))
        sel = base + [r.choice(base) for _ in range(r.randint(1, 4))]
        r.shuffle(sel)
        ps.append({"x": "sel", "rows": R, "cols": C, "sel": sel, "tag": f"rep{i}", "nd": i % 2 == 0})
    ps.append({"x": "sel", "rows": 8, "cols": 1, "sel": [(rr % 8, 0) for rr in range(12)], "tag": "trough-cycle"})
    # two selections of one geometry alive at the same time
    for i in range(40 if q else 400):
        R, C = r.choice([(8, 12), (4, 6), (2, 3), (16, 24), (8, 1)])
        wells = [(rr, cc) for cc in range(C) for rr in range(R)]
        ps.append({"x": "sel", "rows": R, "cols": C, "sel": r.sample(wells, r.randint(1, min(len(wells), 8))), "tag": f"two{i}",
                   "other": r.sample(wells, r.randint(1, min(len(wells), 8)))})
    # dimensions of 160 and more (two hexadecimal digits whose first one is a letter)
    for R, C in ((2, 160), (1, 255), (2, 180), (1, 171)):
        wells = [(rr, cc) for cc in range(C) for rr in range(R)]
        for sel, tag in ((wells, "full"), ([], "empty"), ([wells[0]], "first"), ([wells[-1]], "last"), (r.sample(wells, 9), "some")):
            ps.append({"x": "sel", "rows": R, "cols": C, "sel": sel, "tag": f"wide-{tag}"})
    return ps


def check(run, tier):
    run.rule = (
        "model: MC_Select, one state per (geometry, subset) for all geometries with at most 11 (thorough 14) wells: "
        "Decode(Encode) = identity, length, padding, pointwise injectivity; implementation: evo_make_selection_array + "
        "evo_get_selection for every subset of every geometry with at most 10 (thorough 14) wells, all single-well / full / "
        "empty selections of larger geometries and random selections, as code point sequences judged by Trace_Calls "
        "(C12.faithful = independent decoder, C12.encode, C12.array); distinct = distinct (geometry, selection); non-trivial = non-empty selection"
    )
    q = tier == "quick"
    run.mc("MC_Select", "MC_Select" if q else "MC_Select_thorough", timeout=3000)
    # unbounded: bit addresses of the bitmap are inside the string and pairwise distinct for every number of wells (TLAPS)
    run.tlaps("SelectLemmas")
    r = rng("C12")
    run_calls(run, cases(tier, r), batch=6000, nontrivial=lambda rec: len(rec["sel"]) > 0)
    _command_part(run, tier)
    run.extra["exhaustive_up_to_wells"] = 10 if q else 14


def _command_part(run, tier):
    """The selection string inside B;Aspirate / B;Dispense commands: geometry of the addressed labware, decodes to the named wells."""
    from ..common import rng
    from ..drivers import evo
    from ._twin import run_programs

    r = rng("C12-cmd")
    progs = evo.targeted_programs()
    for i in range(60 if tier == "quick" else 1500):
        progs.append(evo.evo_program(r, f"C12/e{i}", r.randint(2, 6), kinds=["canonical", "canonical", "permuted"]))
    run_programs(run, progs)


def replay(run, rp):
    from ._twin import replay_any

    replay_any(run, rp)
