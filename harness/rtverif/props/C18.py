"""C18 - column partitioning keeps triples intact, groups by column and orders by row."""
import itertools

from ..common import rng
from ._util import replay_calls, run_calls


def cases(tier, r):
    ps = []
    q = tier == "quick"
    base = [[[2, 3], [0, 2], 7], [[0, 0], [2, 0], 2], [[1, 1], [1, 2], 12], [[0, 3], [0, 0], 3], [[1, 0], [1, 1], 5]]
    for n in range(0, 6 if not q else 5):
        for perm in itertools.permutations(range(n)):
            for mode in ("source", "destination"):
                ps.append({"x": "part", "mode": mode, "triples": [base[i] for i in perm], "tag": f"perm{perm}"})
    # heavy ties, repeated wells, rows A..Z, columns 1..99, lists beyond numpy's 16-element stable regime
    for i in range(150 if q else 3000):
        n = r.choice([1, 2, 3, 5, 8, 17, 25, 30])
        rows = r.choice([2, 3, 26])
        cols = r.choice([1, 2, 3, 12, 99])
        tr = [[[r.randrange(rows), r.randrange(cols)], [r.randrange(rows), r.randrange(cols)], r.choice([1, 1, 2, 50])] for _ in range(n)]
        ps.append({"x": "part", "mode": r.choice(["source", "destination"]), "triples": tr, "tag": f"rnd{i}"})
    for mode in ("auto", "column", "", "Source", "dest"):
        ps.append({"x": "part", "mode": mode, "triples": base[:3], "tag": "badmode"})
    for st in (False, True):
        for dt in (False, True):
            for mode in ("auto", "source", "destination", "column", "", "AUTO", "dest"):
                ps.append({"x": "optpart", "st": st, "dt": dt, "mode": mode, "label": r.choice([None, "lab", "", "two\nlines"])})
                for rows, cols in ((1, 1), (1, 3), (8, 1)):
                    ps.append({"x": "optpart", "st": st, "dt": dt, "mode": mode, "label": None, "rows": rows, "cols": cols})
                ps.append({"x": "optpart", "st": st, "dt": dt, "mode": mode, "label": ""})
                # source and destination of different heights (8 rows against 4, 2 against 8)
                ps.append({"x": "optpart", "st": st, "dt": dt, "mode": mode, "label": None, "rows": 8, "drows": 4})
                ps.append({"x": "optpart", "st": st, "dt": dt, "mode": mode, "label": None, "rows": 2, "drows": 8})
    return ps


def check(run, tier):
    run.rule = (
        "model: MC_Partition, one state per triple list (up to 3 triples over 3-4 wells x 2 volumes) and side: "
        "IsPartition(RefPartition), PlanOK(RefPlan), independence of flows from order and mode, AutoSide truth table; "
        "implementation: partition_by_column on every permutation of lists up to 5 triples, random lists up to 30 triples "
        "with heavy ties over rows A..Z and columns 1..99, optimize_partition_by for the four trough/non-trough combinations "
        "x valid and invalid mode names, judged by Trace_Calls (C18.partition, C18.badmode, C18.auto, C18.modename); transfers on both devices whose pairs must come grouped by the column of the chosen side (C18.side, C18.mode, Trace_Twin); "
        "distinct = distinct argument tuples; non-trivial = at least two triples"
    )
    q = tier == "quick"
    run.mc("MC_Partition", "MC_Partition" if q else "MC_Partition_thorough", timeout=3000)
    r = rng("C18")
    run_calls(run, cases(tier, r), nontrivial=lambda rec: rec["fn"] == "part" and len(rec["x"]) >= 2)
    _twin_part(run, tier)


def _twin_part(run, tier):
    """The choice inside transfer(): the emitted pairs are grouped by the column of the chosen side (C18.side)."""
    from ..common import rng
    from ..drivers import programs, targeted
    from ._twin import run_programs

    q = tier == "quick"
    r = rng("C18-twin")
    progs = []
    for dev in ("evo", "fluent"):
        progs += [p for p in targeted.worklist_programs(dev) if "trough" in p["id"] or "pby" in p["id"] or "partition" in p["id"]]
        progs += targeted.permutation_programs(dev, 3)
        # mode names that are not modes: the transfer is refused and nothing is pipetted (C18.mode)
        progs += [p for p in targeted.reject_programs(dev) if "mode" in p["id"]]
    # one source well for destinations in several columns (and the other way round) with volumes that are split, the side named
    L = lambda ws: {"k": "l", "x": [list(w) for w in ws]}
    for dev in ("evo", "fluent"):
        for pby in ("source", "destination", "auto"):
            h = targeted._hdr(f"C18/one-to-many-{pby}", dev, targeted.base_labware(), wlmax=5, flags={"comp": False, "norm": False})
            h["ops"] = [{"op": "transfer", "src": 1, "sw": L([(0, 0)]), "dst": 0, "dw": L([(0, 1), (1, 2), (2, 1), (0, 3)]), "vols": {"k": "l", "x": [7, 3, 12, 2]},
                         "label": "one to many", "wash": 1, "pby": pby},
                        {"op": "transfer", "src": 1, "sw": L([(0, 0), (1, 0), (2, 0), (3, 0)]), "dst": 0, "dw": L([(0, 1), (1, 2), (2, 1), (0, 3)]),
                         "vols": {"k": "l", "x": [6, 2, 3, 1]}, "label": "one column to many", "wash": 1, "pby": pby},
                        {"op": "transfer", "src": 0, "sw": L([(0, 1), (1, 2), (2, 1), (0, 3)]), "dst": 1, "dw": L([(0, 2)]), "vols": {"k": "l", "x": [6, 3, 11, 1]},
                         "label": "many to one", "wash": 1, "pby": pby}]
            progs.append(h)
    for i in range(60 if q else 1500):
        dev = "evo" if i % 2 == 0 else "fluent"
        if i % 6 == 0:
            bad = programs.worklist_program(r, f"C18/badmode{i}", dev, 2, maxunits=30, wlmax=30, comps=False, small=False,
                                            weights={"transfer": 1, "distribute": 0, "aspirate": 0, "dispense": 0, "add": 0, "remove": 0},
                                            transfer_kw={"nmax": 4})
            for o in bad["ops"]:
                if o["op"] == "transfer" and r.random() < 0.6:
                    o["pby"] = r.choice(["column", "", "Source", "dest", "AUTO", "row", "src", "none"])
            progs.append(bad)
        progs.append(programs.worklist_program(r, f"C18/t{i}", dev, r.randint(1, 4), maxunits=30, wlmax=r.choice([3, 5, 30]), comps=False, small=False,
                                               weights={"transfer": 1, "distribute": 0, "aspirate": 0, "dispense": 0, "add": 0, "remove": 0},
                                               transfer_kw={"nmax": 8}))
    run_programs(run, progs)


def replay(run, rp):
    from ._twin import replay_any

    replay_any(run, rp)
