"""Helpers for the property checks that judge stateful programs with Trace_Twin."""
import copy
import json

from .. import twin


def _sig(trace, clause, at):
    """Signature of a failing step: operation, device and the shape facts a known finding is keyed on."""
    try:
        l = at.get("l", 0)
        dev = trace["dev"]
        if l == 0:
            return f"init dev={dev}"
        ev = trace["events"][l - 1]
        op = ev["op"]
        s = f"{op} dev={dev}"
        if op == "distribute":
            a = ev["a"]
            g = trace["lw"][a["src"] - 1]["g"]
            if g["vrows"] > 0:
                s += " src=trough vrows>1" if g["vrows"] > 1 else " src=trough vrows=1"
                rs = [r for r in ev["recs"] if r.get("t") == "R"]
                if clause == "C01.rsrc" and rs:
                    V, col = g["vrows"], a["col"]
                    if not (rs[0]["s1"] == 1 + col * V and rs[0]["s2"] == col * V + V):
                        s += " obs=other"
            else:
                s += " src=plate"
        return s
    except Exception:
        return "unknown"


def paired(prog):
    """The EVO and the Fluent run of one program (C16): adjacent traces, the second marked as pair."""
    a = copy.deepcopy(prog)
    a["dev"] = "evo"
    a["id"] = prog["id"] + "/evo"
    a["pair"] = False
    b = copy.deepcopy(prog)
    b["dev"] = "fluent"
    b["id"] = prog["id"] + "/fluent"
    b["pair"] = True
    return [a, b]


def nontrivial(trace):
    """A trace is non-trivial when some operation succeeded and moved liquid or appended a record."""
    prev = [lw["init"]["vol"] for lw in trace["lw"]]
    for ev in trace["events"]:
        if ev["recs"] or ev["post"]["vol"] != prev:
            return True
        prev = ev["post"]["vol"]
    return False


def run_programs(run, progs, batch=300, keep_pairs=False):
    """Execute programs on the real code and have Trace_Twin judge every step."""
    traces = []
    for i, p in enumerate(progs):
        # every second program is also run unobserved (twin.execute_blind): looking at the labware must not matter
        if i % 2 == 0 and "blind" not in p and not getattr(run, "is_replay", False):
            p["blind"] = True
        tr = twin.execute(p)
        traces.append(tr)
        run.note_case(json.dumps({k: p[k] for k in ("dev", "unit", "wl", "lw", "ops")}, sort_keys=True, default=str), nontrivial(tr))
    step = batch if not keep_pairs else batch - batch % 2
    for k in range(0, len(traces), step):
        chunk = traces[k : k + step]
        items = [{"prog": p} for p in progs[k : k + step]]
        n = sum(len(t["events"]) + 1 for t in chunk)
        by_index = {i: t for i, t in enumerate(chunk)}

        def sig_fn(item, clause, at, _c=chunk):
            tid = at.get("tid", 0)
            return _sig(_c[tid - 1], clause, at) if 1 <= tid <= len(_c) else "unknown"

        # the runner maps a verdict to items[at.i - 1]; twin verdicts carry tid instead
        verdicts_before = len(run.violations) + len(run.context)
        _validate_twin(run, chunk, items, n, sig_fn)
    run.traces += len(traces)
    for t, p in list(zip(traces, progs))[:: max(1, len(traces) // 3)][:3]:
        run.sample({"id": p["id"], "dev": p["dev"], "unit": p["unit"], "wl": p["wl"],
                    "labware": [(l["name"], l["rows"], l["cols"], l["vrows"]) for l in p["lw"]],
                    "ops": p["ops"][:4], "outcomes": [e["out"] for e in t["events"]]})
    return traces


def _validate_twin(run, chunk, items, n, sig_fn):
    payload = {"traces": chunk, "expect_judged": n}
    tagged = _TidItems(items)
    run.validate("Trace_Twin", payload, tagged, sig_fn=sig_fn)


class _TidItems(list):
    """items indexed by the verdict tag: the runner looks up at['i']; twin tags carry 'tid'."""

    def __init__(self, items):
        super().__init__(items)


def run_suite(run, only=None):
    """The repository's own test-suite, recorded by the pytest plugin (drivers/suite.py, suite_plugin.py),
    judged like any other trace. `only` restricts to one trace id (replay)."""
    from ..drivers.suite import suite_traces

    traces, info = suite_traces()
    run.extra["repository_suite"] = info
    if info.get("pytest_rc") not in (0, 1) or not traces:
        run.machinery_errors.append(f"recording the repository test-suite failed: {info.get('pytest_tail')}")
        return []
    if only:
        traces = [t for t in traces if t["id"] == only]
    items = [{"suite": t["id"]} for t in traces]
    n = sum(len(t["events"]) + 1 for t in traces)

    def sig_fn(item, clause, at, _c=traces):
        tid = at.get("tid", 0)
        return _sig(_c[tid - 1], clause, at) if 1 <= tid <= len(_c) else "unknown"

    run.validate("Trace_Twin", {"traces": traces, "expect_judged": n}, items, sig_fn=sig_fn)
    run.traces += len(traces)
    for t in traces:
        run.note_case("suite:" + t["id"], nontrivial(t))
    return traces


def replay_programs(run, rp):
    item = rp["item"]
    run.is_replay = True
    if "suite" in item:
        return run_suite(run, only=item["suite"])
    prog = item["prog"]
    progs = [prog]
    if prog.get("pair"):
        base = copy.deepcopy(prog)
        base["id"] = prog["id"].rsplit("/", 1)[0]
        progs = paired(base)
    return run_programs(run, progs, keep_pairs=True)


def replay_any(run, rp):
    """Re-run exactly the case of a replay file: a program, a recorded repository test or a helper call."""
    item = rp["item"]
    if isinstance(item, dict) and ("prog" in item or "suite" in item):
        return replay_programs(run, rp)
    if isinstance(item, dict) and "re" in item:
        from ._util import replay_calls

        return replay_calls(run, rp)
    run.is_replay = True
    run.notes.append("this replay file describes a model-level violation; re-run the check itself")
    return None
