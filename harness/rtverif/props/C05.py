"""C05 - composition tracking equals ideal volumetric mixing and conserves components."""
from fractions import Fraction

from ..common import rng
from ..drivers import behaviours
from ..drivers import programs, targeted
from ._twin import replay_programs, run_programs
from ._util import replay_calls, run_calls


def check(run, tier):
    run.rule = (
        "model: MC_Twin with exact rational fractions, invariants InvCompSane, InvCompNormalised, InvConserved, "
        "InvRemoveKeeps; implementation: serial dilutions, same-labware and same-well transfers, emptied and refilled "
        "wells, zero-volume steps, distributions and dispenses with given compositions on small volumes (<= 16 units per "
        "well so that every fraction is a rational with denominator < 5000) at units 1 and 118.75 microlitres; the logged "
        "fractions are compared with exact ideal mixing (C05.mix, C05.transfercomp, C05.distcomp, C05.conserved, "
        "C05.sourcekeeps, C05.removekeeps, C05.sane, C05.normalised, C05.initcomp); distinct = distinct programs"
    )
    q = tier == "quick"
    run.mc("MC_Twin", "MC_Twin_mixed")
    run.mc("MC_Twin", "MC_Twin_labware")
    if not q:
        run.mc("MC_Twin", "MC_Twin_mixed_d4", timeout=3000)
    r = rng("C05")
    # the mixing primitive itself: all small volume pairs x a pool of compositions (incl. unknown and shared names)
    pool = [None, {"x": (1, 1)}, {"y": (1, 1)}, {"x": (1, 2), "y": (1, 2)}, {"x": (1, 4), "z": (3, 4)}, {"w": (2, 3), "x": (1, 3)}, {},
            # the same components in the other insertion order with other fractions (dict order must not matter)
            {"z": (1, 4), "x": (3, 4)}, {"y": (1, 4), "x": (3, 4)}]
    ps = []
    k = 0
    for va in range(0, 7 if q else 13):
        for vb in range(0, 7 if q else 13):
            for a in pool:
                for b in pool:
                    k += 1
                    # quick: every third combination, shifted with the volumes so that every pair of compositions is met
                    if (va + vb + k) % (3 if q else 1) == 0:
                        ps.append({"x": "combine", "va": va, "vb": vb, "a": a, "b": b})
    run_calls(run, ps, batch=3000, nontrivial=lambda rec: rec["aknown"] and rec["bknown"] and rec["va"] > 0 and rec["vb"] > 0)
    progs = targeted.worklist_programs("evo") + targeted.naming_programs()
    progs += targeted.round2_programs("evo") + targeted.round2_programs("fluent")
    from ..drivers import evo
    progs += [p for p in evo.targeted_programs() if "compositions" in p["id"]]
    n = 200 if q else 4000
    for i in range(n):
        dev = "evo" if i % 2 == 0 else "fluent"
        unit = Fraction(1) if i % 3 else Fraction(475, 4)
        nosplit = unit != Fraction(1)
        p = programs.worklist_program(r, f"C05/r{i}", dev, r.randint(2, 7), unit=unit, maxunits=12,
                                      wlmax=16 if nosplit else r.choice([3, 5, 16]), comps=True,
                                      weights={"transfer": 6, "distribute": 2, "aspirate": 1, "dispense": 2, "add": 0, "remove": 0})
        progs.append(p)
    # specification -> code: behaviours enumerated by TLC on the bounded model, replayed on the implementation
    for cfg in ("MC_TwinGen_mixed2",) if q else ("MC_TwinGen_mixed2", "MC_TwinGen_mixed3"):
        mprogs, res = behaviours.generate(cfg, timeout=3000)
        if not mprogs:
            run.machinery_errors.append(f"behaviour generation with {cfg} failed: {res.errors[:2]}")
        run.states += res.distinct
        run.transitions += res.generated
        if q and len(mprogs) > 400:
            # quick tier: a seeded sample of the enumerated behaviours (thorough replays all of them)
            k = len(mprogs) // 400 + 1
            mprogs = mprogs[r.randrange(k)::k]
        # what the enumerated behaviours contain (non-vacuity of the model: rejected operations are transitions too)
        stats = run.extra.setdefault("model_outcomes", {})
        for mp in mprogs:
            for mo in mp["ops"]:
                key = mo["op"] + ":" + mo["model"]["out"]
                stats[key] = stats.get(key, 0) + 1
        run.extra.setdefault("model_behaviours_replayed", 0)
        run.extra["model_behaviours_replayed"] += len(mprogs)
        progs += mprogs
    traces = run_programs(run, progs)
    run.extra["events_outside_rational_range"] = sum(1 for t in traces for e in t["events"] if not e.get("cs", True))


def replay(run, rp):
    from ._twin import replay_any

    replay_any(run, rp)
