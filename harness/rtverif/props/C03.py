"""C03 - a worklist never contains a rejected or oversized pipetting step, even on abort."""
from fractions import Fraction

from ..common import rng
from ..drivers import behaviours
from ..drivers import evo, programs, targeted
from ._twin import replay_programs, run_programs


def check(run, tier):
    run.rule = (
        "model: MC_Twin, failing operations are ordinary transitions so that every abort point of transfer/distribute/"
        "aspirate/dispense in the instance is a reachable state; invariants InvReplayWithinLimits and InvStepMax; "
        "implementation: programs of successful operations whose last operation is made to fail (underflow, overflow, "
        "step above max_volume with auto_split off) at a seeded sub-step, on both devices; after every event the robot "
        "replays the records appended so far from the logged state (C03.replay, C03.stepmax, C03.failclean, C03.oversized); "
        "distinct = distinct programs; non-trivial = the program ends with a rejected operation"
    )
    q = tier == "quick"
    run.mc("MC_Twin", "MC_Twin_mixed")
    run.mc("MC_Twin", "MC_Twin_distribute_fluent")
    run.mc("MC_Twin", "MC_Twin_nosplit")
    run.mc("MC_Twin", "MC_Twin_config")
    if not q:
        run.mc("MC_Twin", "MC_Twin_transfer")
        run.mc("MC_Twin", "MC_Twin_mixed_d4", timeout=3000)
    r = rng("C03")
    progs = targeted.fault_programs("evo") + targeted.fault_programs("fluent")
    progs += targeted.round2_programs("evo") + targeted.round2_programs("fluent")
    progs += targeted.config_programs("evo") + targeted.config_programs("fluent")
    progs += targeted.thirddecimal_limit_programs("evo") + targeted.thirddecimal_limit_programs("fluent")
    progs += [p for dev in ("evo", "fluent") for p in targeted.shape_programs(dev) if "mismatch" in p["id"] or "broadcast" in p["id"]]
    progs += [p for p in evo.targeted_programs() if "oversized" in p["id"] or "canonical" in p["id"]]
    n = 200 if q else 4000
    for i in range(n):
        dev = "evo" if i % 2 == 0 else "fluent"
        auto = i % 4 != 3
        p = programs.worklist_program(r, f"C03/r{i}", dev, r.randint(1, 6), fault_last=True, autosplit=auto,
                                      wlmax=r.choice([2, 3, 5]), unit=Fraction(1) if i % 3 else Fraction(1, 4), comps=(i % 3 != 0))
        progs.append(p)
    # the configuration changes between operations; the last operation is made to fail
    for i in range(60 if q else 1500):
        progs.append(programs.worklist_program(r, f"C03/c{i}", "evo" if i % 2 == 0 else "fluent", r.randint(2, 6), fault_last=True,
                                               wlmax=r.choice([2, 3, 5]), comps=False, reconfig_prob=0.35))
    # specification -> code: behaviours enumerated by TLC on the bounded model, replayed on the implementation
    for cfg in ("MC_TwinGen_mixed2_nosplit", "MC_TwinGen_distribute1") if q else ("MC_TwinGen_mixed2_nosplit", "MC_TwinGen_distribute1", "MC_TwinGen_distribute1_fluent", "MC_TwinGen_mixed3"):
        mprogs, res = behaviours.generate(cfg, timeout=3000)
        if not mprogs:
            run.machinery_errors.append(f"behaviour generation with {cfg} failed: {res.errors[:2]}")
        run.states += res.distinct
        run.transitions += res.generated
        if q and len(mprogs) > 400:
            # quick tier: a seeded sample of the enumerated behaviours (thorough replays all of them)
            k = len(mprogs) // 400 + 1
            mprogs = mprogs[r.randrange(k)::k]
        # what the enumerated behaviours contain (non-vacuity of the model: rejected operations are transitions too)
        stats = run.extra.setdefault("model_outcomes", {})
        for mp in mprogs:
            for mo in mp["ops"]:
                key = mo["op"] + ":" + mo["model"]["out"]
                stats[key] = stats.get(key, 0) + 1
        run.extra.setdefault("model_behaviours_replayed", 0)
        run.extra["model_behaviours_replayed"] += len(mprogs)
        progs += mprogs
    traces = run_programs(run, progs)
    run.extra["programs_ending_in_rejection"] = sum(1 for t in traces if t["events"] and t["events"][-1]["out"] != "ok")
    run.assumptions += ["the file written on leaving the with-block equals the record list (checked by C17)"]


def replay(run, rp):
    from ._twin import replay_any

    replay_any(run, rp)
