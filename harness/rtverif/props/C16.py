"""C16 - EVO and Fluent worklists differ only in trough well numbers."""
from fractions import Fraction

from ..common import rng
from ..drivers import programs, targeted
from ._twin import paired, replay_programs, run_programs


def check(run, tier):
    run.rule = (
        "model: the device is a parameter of Pos only; MC_Twin is checked for both values of Dev; implementation: every "
        "program is executed on an EvoWorklist and on a FluentWorklist (adjacent traces) and Trace_Twin compares outcome "
        "classes, twins, histories and the record lists with trough positions masked (C16.outcome, C16.twin, C16.records, "
        "C16.length); a BaseWorklist must refuse numbering dependent operations (C16.base); programs include operations "
        "that violate limits; distinct = distinct programs"
    )
    q = tier == "quick"
    run.mc("MC_Twin", "MC_Twin_mixed")
    run.mc("MC_Twin", "MC_Twin_mixed_fluent")
    if not q:
        run.mc("MC_Twin", "MC_Twin_config")
        run.mc("MC_Twin", "MC_Twin_config_fluent")
    r = rng("C16")
    progs = []
    base = targeted.worklist_programs("evo") + targeted.fault_programs("evo") + targeted.limit_programs("evo") + targeted.device_programs() + targeted.round2_programs("evo") + targeted.config_programs("evo") + targeted.shape_programs("evo")
    for p in base:
        progs += paired(p)
    n = 120 if q else 3000
    for i in range(n):
        p = programs.worklist_program(r, f"C16/r{i}", "evo" if i % 2 else "fluent", r.randint(1, 8), fault=0.25 if i % 2 else 0.0,
                                      unit=Fraction(1), wlmax=r.choice([2, 3, 5, 16]), autosplit=(i % 5 != 0), emit_prob=0.3 if i % 3 == 0 else 0.0)
        progs += paired(p)
    for i in range(30 if q else 800):
        progs += paired(programs.worklist_program(r, f"C16/c{i}", "evo" if i % 2 else "fluent", r.randint(3, 7), fault=0.1,
                                                  wlmax=r.choice([2, 3, 5]), comps=False, reconfig_prob=0.35))
    for p in targeted.base_programs():
        progs.append(p)
    run_programs(run, progs, keep_pairs=True)


def replay(run, rp):
    from ._twin import replay_any

    replay_any(run, rp)
