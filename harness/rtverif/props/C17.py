"""C17 - saving writes exactly the records, one per line, replacing earlier content."""
from ..common import rng
from ..drivers import files
from ._twin import replay_programs, run_programs


def check(run, tier):
    run.rule = (
        "model: MC_File, a path -> bytes map with save / shrink / clear transitions over record lists of up to 3 records "
        "on a 3 letter alphabet (incl. Latin-1 181) and three pre-existing contents: content = CRLF join, no trailing break, "
        "split returns the records, no residue; implementation: programs in a private temporary directory mixing every "
        "record type with save(str/Path), with-blocks (also left by an exception), pre-existing longer / shorter files, "
        "repeated saves, str(); the bytes on disk are logged and judged by Trace_Twin against FileBytes of the logged "
        "records (C17.content, C17.readback, C17.latin1, C17.noext, C17.nopath, C17.enter, C17.str); distinct = distinct programs"
    )
    q = tier == "quick"
    run.mc("MC_File")
    run.mc("MC_File", "MC_File_edits")  # the caller edits the record list between saves (EditList)
    r = rng("C17")
    progs = files.targeted_programs("evo") + files.targeted_programs("fluent")
    for i in range(100 if q else 3000):
        progs.append(files.file_program(r, f"C17/r{i}", ["evo", "fluent", "base"][i % 3]))
    run_programs(run, progs)
    run.assumptions += ["file names are lower-case *.gwl or have no extension at all; names like x.gwl.txt are not generated"]


def replay(run, rp):
    from ._twin import replay_any

    replay_any(run, rp)
