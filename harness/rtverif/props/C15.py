"""C15 - well transforms are exact inverses and geometrically correct."""
from ..common import rng
from ._util import replay_calls, run_calls


def _wells_of(shape):
    return [[r, c] for r in range(shape[0]) for c in range(shape[1])]


def _arg_variants(r, shape, q):
    ws = _wells_of(shape)
    R, C = shape
    full2d = {"k": "m", "x": [[[rr, cc] for cc in range(C)] for rr in range(R)]}
    out = [({"k": "l", "x": ws}, "list"), (full2d, "ndarray"), ({"k": "s", "x": r.choice(ws)}, "list"), (full2d, "fortran")]
    if R * C > 1:
        k = r.randint(1, min(8, R * C))
        out.append(({"k": "l", "x": [r.choice(ws) for _ in range(k)]}, r.choice(["list", "ndarray", "tuple"])))
    if R > 1 and C > 1:
        r0, c0 = r.randrange(R - 1), r.randrange(C - 1)
        out.append(({"k": "m", "x": [[[rr, cc] for cc in range(c0, C)] for rr in range(r0, R)]}, r.choice(["ndarray", "fortran"])))
    if R >= 1 and C >= 4:
        # a 2-D argument whose corners are those of a block but whose interior is in another order
        row = [[0, cc] for cc in range(C)]
        row[1], row[2] = row[2], row[1]
        out.append(({"k": "m", "x": [row]}, "ndarray"))
    if R >= 3 and C >= 3:
        blk = [[[rr, cc] for cc in range(3)] for rr in range(3)]
        blk[1][1], blk[0][1] = blk[0][1], blk[1][1]
        blk[1][0], blk[1][2] = blk[1][2], blk[1][0]
        out.append(({"k": "m", "x": blk}, "ndarray"))
    out.append(({"k": "l", "x": (ws + ws[::-1] + ws[:1])[: 2 * len(ws) + 1]}, "list"))   # more entries than the plate has wells (repeats)
    out.append(({"k": "l", "x": ws[: max(1, len(ws) // 2)]}, "object"))
    out.append(({"k": "l", "x": list(reversed(ws))}, "view"))
    out.append((full2d, "view"))
    out.append(({"k": "s", "x": r.choice(ws)}, "zerod"))
    return out if not q else out[:2] + out[3:5] + out[-7:]


def cases(tier, r):
    ps = []
    q = tier == "quick"
    if q:
        shapes = [(1, 1), (1, 5), (4, 1), (2, 3), (3, 2), (3, 3), (8, 12), (16, 24), (5, 7)] + [(r.randint(1, 16), r.randint(1, 24)) for _ in range(4)]
    else:
        shapes = [(R, C) for R in range(1, 17) for C in range(1, 25)]
    # plates with 100 and more columns: well IDs get a third digit (their text order is not their plate order any more)
    shapes = list(shapes) + [(2, 104), (1, 120), (3, 101)]
    for sh in shapes:
        R, C = sh
        for arg, present in _arg_variants(r, sh, q):
            if C > 26:
                break  # the rotated plate would need more than 26 row letters
            ps.append({"x": "rot", "shape": list(sh), "wells": arg, "present": present})
            if len(ps) % 3 == 0:
                ps.append({"x": "rot", "shape": list(sh), "wells": arg, "present": present, "scribble": True})
        seeds = [0, 1, r.randint(2, 10**6), 2**32 - 1] if q else [0, 1, 2, 3, r.randint(4, 10**6), r.randint(4, 10**6), 2**32 - 1, 2**31]
        for seed in seeds:
            for mode in ("full", "row", "column", "default"):
                arg, present = r.choice(_arg_variants(r, sh, False))
                ps.append({"x": "rand", "shape": list(sh), "seed": seed, "mode": mode, "wells": arg, "present": present, "scribble": len(ps) % 4 == 0})
        # shifting: every anchor of a few destination shapes (fitting and not fitting)
        dests = [(R, C), (R + 1, C + 2), (R + 3, C), (max(1, R - 1), C + 1), (16, 24)]
        # destinations that are smaller than the source by two or more rows / columns (never fit)
        small = [(max(1, R - 2), C), (R, max(1, C - 3)), (max(1, R - 5), max(1, C - 2))]
        for B in (dests if not q else dests[:4]) + [b for b in small if b[0] < R or b[1] < C]:
            if B[0] > 26:
                continue
            anchors = _wells_of(B)
            if len(anchors) > 12:
                anchors = [anchors[0], anchors[-1], [B[0] - R, B[1] - C] if B[0] >= R and B[1] >= C else anchors[1],
                           [max(0, B[0] - R + 1), max(0, B[1] - C)], [max(0, B[0] - R), max(0, B[1] - C + 1)]] + [r.choice(anchors) for _ in range(3)]
            for an in anchors:
                if an[0] < 0 or an[1] < 0:
                    continue
                arg, present = r.choice(_arg_variants(r, sh, False))
                ps.append({"x": "shift", "A": list(sh), "B": list(B), "anchor": list(an), "wells": arg, "present": present})
            # one object used repeatedly, first on its own table of wells
            if B[0] >= R and B[1] >= C:
                arg, present = r.choice(_arg_variants(r, sh, False))
                ps.append({"x": "shift", "A": list(sh), "B": list(B), "anchor": [0, 0], "wells": arg, "present": present, "own": True})
    return ps


def check(run, tier):
    run.rule = (
        "model: MC_Transform, one state per shape up to 4x6 (thorough 8x12): rotation inverse / four-fold / bijection "
        "lemmas and shift inverse + fits-iff-inside for every destination shape and anchor; implementation: WellShifter, "
        "WellRotator, WellRandomizer on shapes up to 16x24 with wells given as scalar, 1-D, full 2-D and 2-D sub-arrays, "
        "all anchors of several destination shapes, seeds x three modes, judged by Trace_Calls against the spec operators "
        "(randomiser: contract only - permutation, row/column preservation, determinism, inverse); distinct = distinct calls"
    )
    q = tier == "quick"
    run.mc("MC_Transform", "MC_Transform" if q else "MC_Transform_thorough", timeout=3000)
    # unbounded: rotation inverse / inside / four-fold / injective and shift inverse / fits-iff-inside for every shape (TLAPS)
    run.tlaps("TransformLemmas")
    r = rng("C15")
    run_calls(run, cases(tier, r), batch=1500, nontrivial=lambda rec: rec["wells"]["k"] != "s")


def replay(run, rp):
    from ._twin import replay_any

    replay_any(run, rp)
