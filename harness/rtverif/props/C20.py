"""C20 - every labware the constructors accept is internally consistent."""
from ..common import rng
from ._util import replay_calls, run_calls


def I(n):
    return {"cls": "int", "v": n}


def F(n):
    return {"cls": "float", "v": n}


def N(v, asfloat=False):
    return {"cls": "num", "v": v, "asfloat": asfloat}


NOVR = {"given": False, "cls": "int", "v": 0}


def VR(s):
    return {"given": True, "cls": s["cls"], "v": s["v"]}


def init_forms(r, R, C, maxv, trough):
    """Initial-volume arguments: valid and invalid ones."""
    n = R * C
    vol = lambda: r.choice([0, 0, r.randint(0, maxv), maxv])
    out = [{"form": "none"}, {"form": "scalar", "vals": [vol()], "asint": r.random() < 0.5}]
    if trough:
        out.append({"form": "percol", "vals": [vol() for _ in range(C)], "nd": r.random() < 0.5})
        out.append({"form": "percol", "vals": [vol() for _ in range(C + 1)]})  # wrong length
        if C > 1:
            out.append({"form": "percol", "vals": [vol() for _ in range(C - 1)]})
    else:
        out.append({"form": "flat", "vals": [vol() for _ in range(n)], "nd": r.random() < 0.5})
        out.append({"form": "2d", "vals": [vol() for _ in range(n)], "ncols": C})
        # a table without any symmetry (row-major numbering): orientation mistakes show on square plates too
        out.append({"form": "2d", "vals": [i % (maxv + 1) for i in range(n)], "ncols": C})
        out.append({"form": "2d", "vals": [i % (maxv + 1) for i in range(n)], "ncols": C, "order": "F"})
        out.append({"form": "2d", "vals": [(3 * i) % (maxv + 1) for i in range(n)], "ncols": C, "order": "T"})
        out.append({"form": "flat", "vals": [vol() for _ in range(n + 1)]})  # wrong size
        if n > 1:
            out.append({"form": "2d", "vals": [vol() for _ in range(n - C if n > C else n + C)], "ncols": C})  # wrong number of rows
    # invalid values: negative, NaN, above max
    k = C if trough else n
    form = "percol" if trough else "flat"
    for bad in ("neg", "nan", "big"):
        vals = [vol() for _ in range(k)]
        nan = [False] * k
        j = r.randrange(k)
        if bad == "neg":
            vals[j] = -r.randint(1, 5)
        elif bad == "nan":
            nan[j] = True
        else:
            vals[j] = maxv + r.randint(1, 3)
        out.append({"form": form, "vals": vals, "nan": nan})
    out.append({"form": "scalar", "vals": [0], "nan": [True]})
    out.append({"form": "scalar", "vals": [maxv + 1]})
    out.append({"form": "scalar", "vals": [-1]})
    return out


def names_for(r, R, C, init_flat_rowmajor, trough, kind):
    """Component / column names of the given kind: None (default), valid explicit/partial, for empty or unknown wells."""
    if trough:
        if kind == "none":
            return None
        vals = init_flat_rowmajor
        if kind == "valid":
            return {"kind": "list", "list": [(r.choice(["water", f"col{i}", None]) if v > 0 else None) for i, v in enumerate(vals)]}
        if kind == "empty":
            lst = [("x" if v == 0 else None) for v in vals]
            return {"kind": "list", "list": lst if any(lst) else ["x"] * len(vals)}
        if kind == "length":
            return {"kind": "list", "list": [None] * (len(vals) + 1)}
        if kind == "emptylist":
            return {"kind": "list", "list": [], "present": r.choice(["list", "tuple"])}
        if kind in ("tuple", "ndarray"):
            return {"kind": "list", "list": [(r.choice(["water", f"col{i}", None]) if v > 0 else None) for i, v in enumerate(vals)], "present": kind}
        return {"kind": "str", "str": "medium"}
    if kind == "none":
        return None
    wells = [(rr, cc) for rr in range(R) for cc in range(C)]
    if kind == "valid":
        return {"wells": [[list(w), r.choice(["water", f"w{i}", None])] for i, w in enumerate(wells) if init_flat_rowmajor[i] > 0 and r.random() < 0.7]}
    if kind == "emptyshared":
        # an empty well named like a filled one (the name itself is in use, the well is empty all the same)
        empt = [w for i, w in enumerate(wells) if init_flat_rowmajor[i] == 0]
        full = [w for i, w in enumerate(wells) if init_flat_rowmajor[i] > 0]
        if not empt or not full:
            return {"wells": [[[0, C], "ghost"]]}
        return {"wells": [[list(r.choice(full)), "water"], [list(r.choice(empt)), "water"]]}
    if kind == "likedefault":
        # a filled well named like the DEFAULT name of a later filled well without a name of its own
        full = [w for i, w in enumerate(wells) if init_flat_rowmajor[i] > 0]
        if len(full) < 2:
            return None
        later = full[-1]
        return {"wells": [[list(full[0]), "@default@%d,%d" % (later[0], later[1])]]}
    if kind == "empty":
        empt = [w for i, w in enumerate(wells) if init_flat_rowmajor[i] == 0]
        if not empt:
            return {"wells": [[[R, 0], "ghost"]]}
        return {"wells": [[list(r.choice(empt)), "nothing"]]}
    # unknown well: a row or a column beyond the plate (row letters end at Z)
    if R < 24 and r.random() < 0.5:
        return {"wells": [[[R + r.randint(0, 1), r.randrange(C)], "ghost"]]}
    return {"wells": [[[r.randrange(R), C + r.randint(0, 2)], "ghost"]]}


def cases(tier, r):
    ps = []
    q = tier == "quick"
    # sizes: valid and invalid
    for rows in [I(0), I(-1), I(27), I(40), F(2), I(1), I(26)]:
        for cols in [I(0), I(-3), F(3), I(1), I(120)]:
            ps.append({"x": "ctor", "kind": "labware", "rows": rows, "cols": cols, "vrows": NOVR, "minv": N(0), "maxv": N(10), "init": {"form": "none"}, "tag": "sizes"})
    for vr in [I(0), I(-1), F(2), I(27), I(30), I(1), I(26)]:
        for cols in [I(0), F(1), I(1), I(24)]:
            ps.append({"x": "ctor", "kind": "trough", "rows": I(1), "cols": cols, "vrows": VR(vr), "minv": N(0), "maxv": N(10), "init": {"form": "none"}, "tag": "tsizes"})
        # virtual rows passed to Labware directly: only with a single row
        for rows in [I(1), I(2)]:
            ps.append({"x": "ctor", "kind": "labware", "rows": rows, "cols": I(3), "vrows": VR(vr), "minv": N(0), "maxv": N(10), "init": {"form": "none"}, "tag": "vrows"})
    # limits
    lims = [({"cls": "none"}, N(10)), (N(0), {"cls": "none"}), ({"cls": "nan"}, N(10)), (N(0), {"cls": "nan"}), (N(-1), N(10)), (N(5), N(5)),
            (N(6), N(5)), (N(0), N(1)), (N(0, True), N(250, True)), (N(9), N(10))]
    for mn, mx in lims:
        ps.append({"x": "ctor", "kind": "labware", "rows": I(2), "cols": I(3), "vrows": NOVR, "minv": mn, "maxv": mx, "init": {"form": "none"}, "tag": "limits"})
        ps.append({"x": "ctor", "kind": "trough", "rows": I(1), "cols": I(2), "vrows": VR(I(4)), "minv": mn, "maxv": mx, "init": {"form": "none"}, "tag": "limits"})
    # geometries x initial volume forms x names
    geoms = [(1, 1), (1, 4), (3, 1), (2, 3), (4, 6), (8, 12), (26, 2), (2, 2), (3, 3), (8, 8), (3, 2)] + [(r.randint(1, 26), r.randint(1, 30)) for _ in range(3 if q else 40)]
    if not q:
        geoms += [(16, 24), (26, 120), (40, 3)]
    for (R, C) in geoms:
        if R > 26:
            ps.append({"x": "ctor", "kind": "labware", "rows": I(R), "cols": I(C), "vrows": NOVR, "minv": N(0), "maxv": N(9), "init": {"form": "scalar", "vals": [1]}, "tag": "toomany"})
            continue
        maxv = r.choice([5, 10, 200])
        for init in init_forms(r, R, C, maxv, False):
            vals = init.get("vals", [])
            flat = (vals * (R * C) if init["form"] == "scalar" else vals) if init["form"] != "none" else [0] * (R * C)
            ok_shape = len(flat) == R * C
            for nk in (["none", "valid"] if ok_shape else ["none"]) + (["empty", "unknown", "emptyshared", "likedefault"] if ok_shape and init["form"] in ("flat", "none") else []):
                ps.append({"x": "ctor", "kind": "labware", "name": r.choice(["L", "stocks"]), "rows": I(R), "cols": I(C), "vrows": NOVR,
                           "minv": N(r.choice([0, 0, 1])), "maxv": N(maxv), "init": init,
                           "names": names_for(r, R, C, flat if ok_shape else [], False, nk), "tag": f"geom-{nk}"})
                if nk == "valid":
                    ps.append(dict(ps[-1], reuse_names=True, tag="geom-valid-dict-used-before"))
    # the same kinds of specifications in a unit of 2^-40 microlitres (volumes around 1e-12) and of 1024 microlitres
    base_n = len(ps)
    for k, spec in enumerate([q_ for q_ in ps if q_.get("tag", "").startswith("geom-") and q_["init"]["form"] in ("flat", "2d", "scalar") and not any(q_["init"].get("nan", []))][:: (7 if q else 2)]):
        ps.append(dict(spec, scale=[1, 2**40] if k % 2 == 0 else [1024, 1], tag=spec["tag"] + "-scaled"))
    tgeoms = [(1, 1), (4, 1), (1, 3), (8, 4), (26, 2)] + [(r.randint(1, 26), r.randint(1, 24)) for _ in range(3 if q else 30)]
    for (V, C) in tgeoms:
        maxv = r.choice([5, 50])
        for init in init_forms(r, 1, C, maxv, True):
            vals = init.get("vals", [])
            flat = (vals * C if init["form"] == "scalar" else vals) if init["form"] != "none" else [0] * C
            ok_shape = len(flat) == C
            kinds = ["none"] + (["valid", "empty", "length", "emptylist", "tuple", "ndarray"] if ok_shape else []) + (["str"] if ok_shape and C == 1 else [])
            for nk in kinds:
                ps.append({"x": "ctor", "kind": "trough", "name": r.choice(["L", "media"]), "rows": I(1), "cols": I(C), "vrows": VR(I(V)),
                           "minv": N(0), "maxv": N(maxv), "init": init, "names": names_for(r, 1, C, flat if ok_shape else [], True, nk), "tag": f"tgeom-{nk}"})
                if nk in ("none", "valid") and init["form"] in ("percol", "scalar") and not any(init.get("nan", [])) and len(ps) % 5 == 0:
                    ps.append(dict(ps[-1], scale=[1, 2**40], tag=f"tgeom-{nk}-scaled"))
    # Labware with virtual rows built directly (one real row): names are keyed by the real wells (row A); a key of another row -
    # inside or beyond the virtual rows - names an unknown well
    for V in (1, 4, 26):
        for C in (1, 3):
            init = {"form": "flat", "vals": [r.randint(1, 50) for _ in range(C)]}
            base = {"x": "ctor", "kind": "labware", "name": "vlw", "rows": I(1), "cols": I(C), "vrows": VR(I(V)), "minv": N(0), "maxv": N(50), "init": init}
            ps.append(dict(base, names=None, tag="vlabware-none"))
            ps.append(dict(base, names={"wells": [[[0, cc], f"n{cc}"] for cc in range(C)]}, tag="vlabware-valid"))
            for row in sorted({1, V - 1, V, 25} - {0, 26}):
                ps.append(dict(base, names={"wells": [[[row, C - 1], "ghost"]]}, tag="vlabware-unknown-row"))
            ps.append(dict(base, names={"wells": [[[0, C], "ghost"]]}, tag="vlabware-unknown-column"))
    # tables of the wrong size that hold nothing but zeros are wrong sizes all the same
    for (R, C) in ((2, 3), (1, 4), (3, 3), (8, 12)):
        n = R * C
        zero = [{"form": "flat", "vals": [0] * (n + 1)}, {"form": "flat", "vals": [0] * (n - 1)}, {"form": "flat", "vals": [0] * C},
                {"form": "2d", "vals": [0] * (n + C), "ncols": C}, {"form": "2d", "vals": [0] * (C * C + C), "ncols": C + 1},
                {"form": "flat", "vals": [0] * n}, {"form": "2d", "vals": [0] * n, "ncols": C}]
        for init in zero:
            ps.append({"x": "ctor", "kind": "labware", "name": "zeros", "rows": I(R), "cols": I(C), "vrows": NOVR, "minv": N(0), "maxv": N(9), "init": init,
                       "names": None, "tag": "zeros"})
    for C in (1, 3):
        for k in (C + 1, C - 1, 2 * C):
            ps.append({"x": "ctor", "kind": "trough", "name": "zeros", "rows": I(1), "cols": I(C), "vrows": VR(I(4)), "minv": N(0), "maxv": N(9),
                       "init": {"form": "percol", "vals": [0] * k}, "names": None, "tag": "tzeros"})
    return ps


def check(run, tier):
    run.rule = (
        "model: MC_Ctor, one state per abstract specification (sizes incl. 0, 27, non-integer; limits incl. NaN/None; "
        "volume classes incl. negative, NaN, above max; five layout forms): every valid specification has a consistent "
        "reference object and every listed unrepresentable kind is invalid; implementation: Labware / Trough constructor "
        "calls over sizes up to 40 x 120, scalar / flat / 2-D / per-column initial volumes, explicit, partial and default "
        "names, names for empty and unknown wells, judged by Trace_Calls (C20.consistent, C20.layout, C20.naming, C20.accept, "
        "C20.reject); distinct = distinct specifications; non-trivial = the specification is accepted"
    )
    q = tier == "quick"
    run.mc("MC_Ctor", "MC_Ctor" if q else "MC_Ctor_thorough", timeout=3000)
    r = rng("C20")
    run_calls(run, cases(tier, r), batch=150, nontrivial=lambda rec: rec["out"] == "ok")


def replay(run, rp):
    from ._twin import replay_any

    replay_any(run, rp)
