"""C14 - a DilutionPlan is self-consistent and executable as planned."""
from ..common import rng
from ..drivers import dilution
from ._twin import replay_programs, run_programs
from ._util import replay_calls, run_calls


def check(run, tier):
    run.rule = (
        "model: MC_Dilution, every instruction list over 2 rows x 3 columns with volumes 1..3 that satisfies the plan "
        "contract is executed on the twin model: no underflow, chained concentrations; implementation: DilutionPlan for a "
        "grid of (xmin, xmax, R, C, stock, mode, vmax scalar/vector, min_transfer), every returned plan logged with whole "
        "microlitre volumes and concentrations as rationals and judged by Trace_Calls against the contract of RTDilution "
        "(C14.whole, C14.bounds, C14.budget, C14.conc for vmax <= 50, C14.totals, C14.complete, C14.outcome); plans are then "
        "executed with to_worklist on both devices and the observed transfers are judged by Trace_Twin plus C14.exec.* "
        "(tracked stock fraction = reported concentration, stock consumption = v_stock, diluent <= v_diluent); "
        "distinct = distinct parameter sets; non-trivial = a plan was returned that dilutes at least one column from another"
    )
    q = tier == "quick"
    run.mc("MC_Dilution")
    r = rng("C14")
    ps = dilution.targeted_params()
    for i in range(400 if q else 15000):
        ps.append(dilution.plan_params(r))
    recs = run_calls(run, ps, batch=1000, nontrivial=lambda rec: rec["out"] == "ok" and any(i["src"] > 0 for i in rec["instr"]))
    run.extra["plans_returned"] = sum(1 for x in recs if x["out"] == "ok")
    run.extra["plans_with_exact_concentration_check"] = sum(1 for x in recs if x["out"] == "ok" and x["small"] and x["xsup"])
    progs = dilution.execution_programs(r, recs, 40 if q else 1500)
    run_programs(run, progs)


def replay(run, rp):
    from ._twin import replay_any

    replay_any(run, rp)
