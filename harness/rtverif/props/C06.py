"""C06 - large-volume handling: splitting is complete, bounded and minimal."""
from fractions import Fraction

from ..common import rng
from ..drivers import emitters, programs, targeted
from ._twin import replay_programs, run_programs, run_suite
from ._util import replay_calls, run_calls


def grid(tier, r):
    ps = []
    q = tier == "quick"
    # dense quarter-microlitre grid: integer and non-integer microlitre values of volume and max_volume
    vs = range(0, 241 if not q else 121)
    Ms = range(1, 49 if not q else 25)
    for M in Ms:
        for v in vs:
            if q and (v + M) % 3 and v % M and v % M != 1 and (v + 1) % M:
                continue  # quick tier: every third point plus everything at / next to multiples of M
            ps.append({"x": "split", "v": v, "M": M, "unit": [1, 4], "mint": True, "vint": (v + M) % 2 == 0})
    # microlitre scale: around every multiple of realistic max_volume values (half-microlitre units)
    for M2 in (1900, 1901, 2000, 395, 1899, 1):
        for mult in range(0, 6 if q else 12):
            for dv in (-2, -1, 0, 1, 2):
                v = mult * M2 + dv
                if v >= 0:
                    ps.append({"x": "split", "v": v, "M": M2, "unit": [1, 2], "mint": True, "vint": True})
    for _ in range(50 if q else 2000):
        M = r.randint(1, 4000)
        ps.append({"x": "split", "v": r.randint(0, 12 * M), "M": M, "unit": [1, 2], "mint": r.random() < 0.5, "vint": r.random() < 0.5})
    return ps


def check(run, tier):
    run.rule = (
        "model: MC_Split, one state per (v, max_volume, units per microlitre), invariants IsValidSplit(RefSplit), fit, "
        "minimality and the multi-dispense rule; implementation: partition_volume on a dense quarter-microlitre grid "
        "(integer and non-integer max_volume) and around multiples of realistic max_volume values, judged by Trace_Calls "
        "(C06.helper); whole transfers with split volumes and distributions on both devices judged by Trace_Twin (C06.count, "
        "C06.steps, C06.neverrefused, C06.nosplit, C06.multidisp, C06.distsize); distinct = distinct (v, max_volume) pairs and programs; "
        "non-trivial = v > max_volume"
    )
    q = tier == "quick"
    run.mc("MC_Split", "MC_Split" if q else "MC_Split_thorough")
    # unbounded: the balanced split is valid and minimal for EVERY volume and EVERY positive max_volume (TLAPS, 148 obligations; also the multi-dispense rule)
    run.tlaps("SplitValid")
    # the configuration is part of the state of the twin model: SetCfg steps between the operations (family "config")
    run.mc("MC_Twin", "MC_Twin_config")
    if not q:
        run.mc("MC_Twin", "MC_Twin_config_fluent")
        run.mc("MC_Twin", "MC_Twin_config_d6", timeout=3000)
    r = rng("C06")
    run_calls(run, grid(tier, r), nontrivial=lambda rec: rec["v"] > rec["M"])
    # volumes a hair above / below a multiple of max_volume (C06.rawcount, C06.rawbounded, C06.rawsum)
    raw = [{"x": "rawsplit", "m": m, "k": k, "sign": sign, "exp": e, "mint": mint}
           for m in ([950, 1], [200, 1], [401, 2], [7, 10], [1000, 1], [19, 2])
           for k in ((1, 2, 3, 7) if q else range(1, 13))
           for sign in (1, -1)
           for e in (-12, -11, -10, -9, -8, -6)
           for mint in (False, True)]
    run_calls(run, raw, nontrivial=lambda rec: rec["want"] > 1)
    progs = []
    for dev in ("evo", "fluent"):
        progs += targeted.split_programs(dev)
        progs += targeted.thirddecimal_limit_programs(dev)
        progs += [p for p in emitters.targeted_programs(dev) if "multidisp" in p["id"]]
    n = 80 if q else 2000
    for i in range(n):
        dev = "evo" if i % 2 == 0 else "fluent"
        unit = [Fraction(1), Fraction(1, 2), Fraction(1, 4)][i % 3]
        p = programs.worklist_program(r, f"C06/r{i}", dev, r.randint(1, 4), unit=unit, maxunits=200, wlmax=r.choice([3, 7, 10, 19]),
                                      comps=False, autosplit=(i % 4 != 0), small=False, fault=0.0,
                                      weights={"transfer": 4, "distribute": 2, "aspirate": 0, "dispense": 0, "add": 0, "remove": 0},
                                      big_factor=6)
        progs.append(p)
    # max_volume values whose two-decimal text is larger than the value itself (0.375 -> "0.38", 0.875 -> "0.88"): a full-size
    # step of an automatically split volume is exactly max_volume and must not be refused for its rounded text
    r3 = rng("C06-eighths")
    for i in range(30 if q else 600):
        dev = "evo" if i % 2 == 0 else "fluent"
        progs.append(programs.worklist_program(r3, f"C06/e{i}", dev, r3.randint(1, 4), unit=Fraction(1, 8), maxunits=200, wlmax=r3.choice([3, 7, 11, 15]),
                                               comps=False, small=False, big_factor=6, flags={"records": False, "robot": False},
                                               weights={"transfer": 5, "distribute": 1, "aspirate": 1, "dispense": 1, "add": 0, "remove": 0}))
    # the worklist's configuration is state: max_volume / auto_split assigned between operations of one worklist object
    r2 = rng("C06-config")
    for dev in ("evo", "fluent"):
        progs += targeted.config_programs(dev)
        progs += [p for p in targeted.round2_programs(dev) if "mix-in-place" in p["id"]]
    for i in range(40 if q else 1000):
        dev = "evo" if i % 2 == 0 else "fluent"
        progs.append(programs.worklist_program(r2, f"C06/c{i}", dev, r2.randint(3, 7), maxunits=40, wlmax=r2.choice([3, 7, 10]),
                                               comps=False, small=False, reconfig_prob=0.4, big_factor=4,
                                               weights={"transfer": 4, "distribute": 2, "aspirate": 1, "dispense": 1, "add": 0, "remove": 0}))
    # specification -> code: behaviours of the bounded model in which SetCfg steps interleave with the operations
    from ..drivers import behaviours
    for cfg in ("MC_TwinGen_config3",) if q else ("MC_TwinGen_config3", "MC_TwinGen_config3_fluent"):
        mprogs, res = behaviours.generate(cfg, timeout=3000)
        if not mprogs:
            run.machinery_errors.append(f"behaviour generation with {cfg} failed: {res.errors[:2]}")
        run.states += res.distinct
        run.transitions += res.generated
        if q and len(mprogs) > 300:
            k = len(mprogs) // 300 + 1
            mprogs = mprogs[r2.randrange(k)::k]
        run.extra["model_behaviours_replayed"] = run.extra.get("model_behaviours_replayed", 0) + len(mprogs)
        progs += mprogs
    run_programs(run, progs)

    # the repository's own test-suite, recorded and judged step by step
    run_suite(run)


def replay(run, rp):
    from ._twin import replay_any

    replay_any(run, rp)
