"""C10 - tip selections encode to the Tecan tip bit mask."""
import itertools

from ..common import rng
from ..drivers import evo, targeted
from ._twin import replay_programs, run_programs
from ._util import replay_calls, run_calls

GOOD = [["int", n] for n in range(1, 9)] + [["tip", n] for n in range(1, 9)]
BAD = [["int", 0], ["int", 9], ["bad", "float"], ["bad", "str"], ["any"]]


def cases(tier, r):
    ps = []
    q = tier == "quick"
    for s in GOOD + [["any"], ["int", 0], ["int", 9], ["bad", "float"], ["bad", "str"], ["int", -1], ["int", 255]]:
        for via in ("A", "D"):
            ps.append({"x": "mask", "via": via, "tip": {"k": "one", "s": s}})
    # collections with ONE member are collections: the member rules apply (Tip.Any, 0, 9, 2.5 are not members of a selection)
    for s in GOOD[:3] + GOOD[8:10] + [["any"], ["int", 0], ["int", 9], ["bad", "float"], ["bad", "str"], ["int", -1]]:
        for present in ("list", "tuple", "set", "iter"):
            if present == "set" and s[0] == "bad":
                continue
            ps.append({"x": "mask", "via": "A" if present in ("list", "set") else "D", "tip": {"k": "coll", "x": [list(s)], "present": present}})
    # every sequence up to length 3 over the 16 symbols (quick: all of length <= 2, a seeded third of length 3)
    for n in (1, 2, 3):
        for seq in itertools.product(GOOD, repeat=n):
            if q and n == 3 and r.random() > 0.3:
                continue
            ps.append({"x": "mask", "via": "A" if (len(ps) % 2) else "D",
                       "tip": {"k": "coll", "x": [list(s) for s in seq], "present": ["tuple", "list", "iter", "list", "tuple", "list", "list"][len(ps) % 7]}})
    # all 255 subsets, in ascending and in shuffled order with a repeated member
    for m in range(1, 256):
        members = [n for n in range(1, 9) if m >> (n - 1) & 1]
        ps.append({"x": "mask", "via": "A", "tip": {"k": "coll", "x": [["int", n] for n in members]}})
        sh = members + [r.choice(members)]
        r.shuffle(sh)
        ps.append({"x": "mask", "via": "D", "tip": {"k": "coll", "x": [[r.choice(["int", "tip"]), n] for n in sh]}})
        if m % 5 == 0:
            # other representations of a collection: a one-shot iterable, a set
            ps.append({"x": "mask", "via": "A", "tip": {"k": "coll", "x": [[r.choice(["int", "tip"]), n] for n in sh], "present": "iter"}})
            ps.append({"x": "mask", "via": "D", "tip": {"k": "coll", "x": [["int", n] for n in sh], "present": "set"}})
    # a complete selection (all eight tips, in some order, possibly with repetitions) followed or interrupted by an invalid member
    for b in BAD + [["int", -1], ["int", 255]]:
        full = [[r.choice(["int", "tip"]), n] for n in r.sample(range(1, 9), 8)]
        ps.append({"x": "mask", "via": "A", "tip": {"k": "coll", "x": full + [b]}})
        ps.append({"x": "mask", "via": "D", "tip": {"k": "coll", "x": full + [full[2], b, full[0]], "present": "tuple"}})
        ps.append({"x": "mask", "via": "A", "tip": {"k": "coll", "x": full[:4] + [b] + full[4:]}})
    for k in (8, 9, 12, 16):
        seq = [[r.choice(["int", "tip"]), r.randint(1, 8)] for _ in range(k)]
        ps.append({"x": "mask", "via": "D", "tip": {"k": "coll", "x": seq}})
        ps.append({"x": "mask", "via": "A", "tip": {"k": "coll", "x": [[r.choice(["int", "tip"]), n] for n in range(1, 9)] * 2}})
    # invalid members inside collections
    for b in BAD:
        for g in (GOOD[0], GOOD[12]):
            ps.append({"x": "mask", "via": "A", "tip": {"k": "coll", "x": [g, b]}})
            ps.append({"x": "mask", "via": "D", "tip": {"k": "coll", "x": [b, g, g]}})
            ps.append({"x": "mask", "via": "D", "tip": {"k": "coll", "x": [g, g, b], "present": "iter"}})
    return ps


def check(run, tier):
    run.rule = (
        "model: MC_Tips, one state per tip argument (all sequences up to length 3 over the 16 valid symbols, single symbols "
        "and collections with invalid members), invariants on the bits of the mask; implementation: the same arguments "
        "through aspirate_well and dispense_well judged by Trace_Calls (C10.mask, C10.reject), transfers with tip keyword "
        "(both records of a pair carry the same mask, C09.kwargs/C07.pairs) and EVO script commands (C10.evomask) judged by "
        "Trace_Twin; distinct = distinct tip arguments; non-trivial = collections with at least two members"
    )
    q = tier == "quick"
    run.mc("MC_Tips", "MC_Tips" if q else "MC_Tips_thorough")
    r = rng("C10")
    run_calls(run, cases(tier, r), nontrivial=lambda rec: rec["tip"]["k"] == "coll" and len(rec["tip"]["x"]) >= 2)
    progs = targeted.tip_programs("evo") + targeted.tip_programs("fluent")
    # EVO script commands: mask = OR of the distinct tips, volume slot i belongs to tip i
    progs += evo.targeted_programs()
    from ..drivers import emitters
    progs += [p for dev in ("evo", "fluent") for p in emitters.targeted_programs(dev) if "tip" in p["id"]]
    for i in range(60 if q else 1500):
        progs.append(evo.evo_program(r, f"C10/e{i}", r.randint(2, 6), kinds=["canonical", "permuted", "permuted", "duptip", "badtip"]))
    run_programs(run, progs)
    run.extra["exhaustive"] = not q


def replay(run, rp):
    from ._twin import replay_any

    replay_any(run, rp)
