"""C04 - exact volume bookkeeping per real well, including trough aliasing."""
from fractions import Fraction

from ..common import rng
from ..drivers import behaviours
from ..drivers import evo, programs, targeted
from ._twin import replay_programs, run_programs, run_suite


def check(run, tier):
    run.rule = (
        "model: MC_Twin labware family (2-D arguments, repeated wells, trough aliases) with the reference AddRun/RemoveRun "
        "and the plan check vol' = ApplyTriples; implementation: histories over plates up to 16x24 and troughs up to 16 "
        "virtual rows with every argument shape (scalar, list with repeats, 2-D non-square arrays, broadcast volumes), "
        "judged by Trace_Twin (C04.vol, C04.transfer, C04.distribute, C04.frame, C04.accept, C04.reject); distinct = distinct programs"
    )
    q = tier == "quick"
    run.mc("MC_Twin", "MC_Twin_labware")
    if not q:
        run.mc("MC_Twin", "MC_Twin_labware_d2", timeout=3000)
    r = rng("C04")
    progs = targeted.worklist_programs("evo") + targeted.shape_programs("fluent") + targeted.shape_programs("evo")
    progs += targeted.round2_programs("evo") + targeted.round2_programs("fluent")
    progs += evo.targeted_programs()  # script commands with wells, tips and per-tip volumes in every order: each well is booked with ITS volume
    progs += evo.rounding_programs()  # script commands: the labware is booked with what was asked for, not with the rounded text
    n = 150 if q else 3000
    for i in range(n):
        dev = "evo" if i % 2 == 0 else "fluent"
        big = i % 3 == 0
        p = programs.worklist_program(r, f"C04/r{i}", dev, r.randint(2, 10), unit=Fraction(1, 4) if i % 2 else Fraction(1),
                                      maxunits=64, direct=True, comps=False, big_geom=big, small=not big,
                                      weights={"transfer": 2, "distribute": 1, "aspirate": 2, "dispense": 2, "add": 3, "remove": 3})
        progs.append(p)
    # very small and very large units (1/1024 and 2^-40 microlitre, 1024 microlitres): a volume that prints as 0.00 is still a volume
    for i in range(30 if q else 600):
        dev = "evo" if i % 2 == 0 else "fluent"
        unit = [Fraction(1, 1024), Fraction(1, 2**40), Fraction(2**10)][i % 3]
        progs.append(programs.worklist_program(r, f"C04/u{i}", dev, r.randint(2, 8), unit=unit, maxunits=64, wlmax=100, direct=True, comps=False,
                                               flags={"records": False, "robot": False},
                                               weights={"transfer": 4, "distribute": 1, "aspirate": 1, "dispense": 1, "add": 1, "remove": 1}))
    # specification -> code: behaviours enumerated by TLC on the bounded model, replayed on the implementation
    for cfg in ("MC_TwinGen_labware1",) if q else ("MC_TwinGen_labware1", "MC_TwinGen_mixed2", "MC_TwinGen_transfer1"):
        mprogs, res = behaviours.generate(cfg, timeout=3000)
        if not mprogs:
            run.machinery_errors.append(f"behaviour generation with {cfg} failed: {res.errors[:2]}")
        run.states += res.distinct
        run.transitions += res.generated
        if q and len(mprogs) > 400:
            # quick tier: a seeded sample of the enumerated behaviours (thorough replays all of them)
            k = len(mprogs) // 400 + 1
            mprogs = mprogs[r.randrange(k)::k]
        # what the enumerated behaviours contain (non-vacuity of the model: rejected operations are transitions too)
        stats = run.extra.setdefault("model_outcomes", {})
        for mp in mprogs:
            for mo in mp["ops"]:
                key = mo["op"] + ":" + mo["model"]["out"]
                stats[key] = stats.get(key, 0) + 1
        run.extra.setdefault("model_behaviours_replayed", 0)
        run.extra["model_behaviours_replayed"] += len(mprogs)
        progs += mprogs
    run_programs(run, progs)

    # the repository's own test-suite, recorded and judged step by step
    run_suite(run)


def replay(run, rp):
    from ._twin import replay_any

    replay_any(run, rp)
