"""C09 - every record is well-formed and carries exactly the arguments given."""
from fractions import Fraction

from ..common import rng
from ..drivers import emitters, programs, targeted
from ._twin import replay_programs, run_programs, run_suite


def check(run, tier):
    run.rule = (
        "model: MC_Records, one state per abstract argument tuple of an A/D record: Render followed by an independent "
        "split returns the fields iff the arguments are valid, a separator changes the field count; implementation: "
        "programs of comment, wash, decontaminate, flush, commit, set_diti, aspirate_well, dispense_well and "
        "reagent_distribution calls with printable Latin-1 texts of length 0..40 (with and without ';'), positions, "
        "volumes and counts over valid and invalid classes, plus keyword pass-through of aspirate/dispense/transfer/"
        "distribute; judged by Trace_Twin: every appended record satisfies WellFormed (Render(decoded) = raw, field count) "
        "and carries the given arguments, invalid calls raise and append nothing (C09.*); distinct = distinct programs"
    )
    q = tier == "quick"
    run.mc("MC_Records")
    r = rng("C09")
    # (reagent distributions with a third decimal are judged by C06 only: the volume text of an R record with more than two
    # decimals is written as given, which no property pins)
    progs = [p for p in emitters.targeted_programs("evo") if "third-decimal" not in p["id"]] + emitters.targeted_programs("fluent")[:10]
    progs += targeted.kwarg_programs("evo") + targeted.kwarg_programs("fluent")
    progs += [p for dev in ("evo", "fluent") for p in targeted.config_programs(dev) if "diti" in p["id"] or "single-steps" in p["id"]]
    n = 120 if q else 3000
    for i in range(n):
        dev = ["evo", "fluent", "base"][i % 3]
        progs.append(emitters.emitter_program(r, f"C09/e{i}", dev, r.randint(3, 12), diti=(i % 7 == 0), maxul=r.choice([950, 200, 1000])))
    for i in range(40 if q else 1000):
        dev = "evo" if i % 2 == 0 else "fluent"
        progs.append(programs.worklist_program(r, f"C09/p{i}", dev, r.randint(1, 4), unit=Fraction(1, 4), maxunits=60, wlmax=r.choice([7, 19]),
                                               comps=False, transfer_kw={"kwargs": True}, labware_kw=True))
    run_programs(run, progs)

    # the repository's own test-suite, recorded and judged step by step
    run_suite(run)


def replay(run, rp):
    from ._twin import replay_any

    replay_any(run, rp)
