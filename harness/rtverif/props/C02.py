"""C02 - volume limits are enforced on every tracked operation."""
from fractions import Fraction

from ..common import rng
from ..drivers import behaviours
from ..drivers import programs, targeted
from ._twin import replay_programs, run_programs


def check(run, tier):
    run.rule = (
        "model: MC_Twin families labware/mixed/distribute, invariants InvBounds and InvLimitsStep over every reachable "
        "state including the states left by rejected operations; implementation: histories mixing add/remove/aspirate/"
        "dispense/transfer/distribute with deliberately infeasible volumes (exact limit, one unit beyond) at units 1, "
        "2^-40 and 2^10 microlitres plus inf/huge values, judged by Trace_Twin (C02.bounds, C02.okbounds, C02.outcome, "
        "C02.offender) and, for decimal limits and volumes that land exactly on a limit, the stored floats compared literally (C02.rawbounds); distinct = distinct programs; non-trivial = some step changed a volume or emitted a record"
    )
    q = tier == "quick"
    run.mc("MC_Twin", "MC_Twin_labware")
    run.mc("MC_Twin", "MC_Twin_distribute")
    # unbounded integers: the guarded per-well update is inductive for 0 <= vol <= max and monotone w.r.t. the limits
    run.apalache("LabwareInd", "IndInit", "IndInv", cinit="ConstInit")
    run.apalache("LabwareInd", "IndInit", "StepOK", cinit="ConstInit")
    if not q:
        run.mc("MC_Twin", "MC_Twin_labware_d2", timeout=3000)
        run.mc("MC_Twin", "MC_Twin_mixed_d4", timeout=3000)
    r = rng("C02")
    progs = targeted.limit_programs("evo") + targeted.limit_programs("fluent")
    progs += targeted.round2_programs("evo") + targeted.round2_programs("fluent")
    progs += [p for dev in ("evo", "fluent") for p in targeted.config_programs(dev) if "limits" in p["id"]]
    from ..drivers import evo
    progs += [p for p in evo.targeted_programs() if "trough-scalar" in p["id"] or "all-eight" in p["id"]]
    n = 150 if q else 3000
    units = [Fraction(1), Fraction(1, 2**40), Fraction(2**10), Fraction(1, 4)]
    for i in range(n):
        dev = "evo" if i % 2 == 0 else "fluent"
        unit = units[i % len(units)]
        recs = unit in (Fraction(1), Fraction(1, 4))
        p = programs.worklist_program(r, f"C02/r{i}", dev, r.randint(2, 12), unit=unit, fault=0.35, direct=True,
                                      wlmax=None if recs else 100,
                                      comps=False, flags={"records": recs, "robot": False},
                                      weights={"transfer": 3, "distribute": 2, "aspirate": 2, "dispense": 2, "add": 3, "remove": 3})
        progs.append(p)
    # specification -> code: behaviours enumerated by TLC on the bounded model, replayed on the implementation
    for cfg in ("MC_TwinGen_labware1",) if q else ("MC_TwinGen_labware1", "MC_TwinGen_mixed2_nosplit", "MC_TwinGen_distribute1"):
        mprogs, res = behaviours.generate(cfg, timeout=3000)
        if not mprogs:
            run.machinery_errors.append(f"behaviour generation with {cfg} failed: {res.errors[:2]}")
        run.states += res.distinct
        run.transitions += res.generated
        if q and len(mprogs) > 400:
            # quick tier: a seeded sample of the enumerated behaviours (thorough replays all of them)
            k = len(mprogs) // 400 + 1
            mprogs = mprogs[r.randrange(k)::k]
        # what the enumerated behaviours contain (non-vacuity of the model: rejected operations are transitions too)
        stats = run.extra.setdefault("model_outcomes", {})
        for mp in mprogs:
            for mo in mp["ops"]:
                key = mo["op"] + ":" + mo["model"]["out"]
                stats[key] = stats.get(key, 0) + 1
        run.extra.setdefault("model_behaviours_replayed", 0)
        run.extra["model_behaviours_replayed"] += len(mprogs)
        progs += mprogs
    run_programs(run, progs)
    # decimal limits and volumes landing exactly on a limit: the stored floats are compared literally (C02.rawbounds)
    from ._util import run_calls

    rr = rng("C02-raw")
    raw = []
    for i in range(600 if q else 30000):
        mn, mx = rr.randint(1, 200), rr.randint(300, 2500)
        n = rr.randint(1, 6)
        init = [rr.randint(mn, mx) for _ in range(n)]
        cur = list(init)
        steps = []
        for _ in range(rr.randint(1, 2 * n)):
            c = rr.randrange(n)
            kind = rr.random()
            if kind < 0.45:      # down to exactly the minimum
                op, amount = "remove", cur[c] - mn
            elif kind < 0.9:     # up to exactly the maximum
                op, amount = "add", mx - cur[c]
            elif kind < 0.95:    # somewhere inside
                op, amount = "remove", rr.randint(0, cur[c] - mn)
            else:
                op, amount = "add", rr.randint(0, mx - cur[c])
            st = {"op": op, "col": c, "amount": amount}
            if amount >= 2 and rr.random() < 0.4:
                # one call that names the same real well twice (two virtual rows of a trough column): the two parts add up
                # to the amount "in decimal terms"; in floats (v + a) + b and v + (a + b) may differ by one unit in the last place
                st["first"] = rr.randint(1, amount - 1)
            steps.append(st)
            # whether the step is accepted is float noise; continue from a fresh random level either way is not possible,
            # so the decimal book-keeping assumes acceptance (a rejected step just leaves the well where it was)
            cur[c] = cur[c] - amount if op == "remove" else cur[c] + amount
        raw.append({"x": "rawlimit", "kind": "plate" if i % 3 else "trough", "via": "worklist" if i % 4 == 0 else "direct",
                    "min": mn, "max": mx, "init": init, "steps": steps})
        if i % 5 == 0:
            raw.append(dict(raw[-1], init_dtype="float32" if i % 2 else "float16"))
    run_calls(run, raw, nontrivial=lambda rec: rec["nsteps"] > 1)
    run.assumptions += ["limits and volumes lie on an exact grid so that comparisons at the boundary are decided without float noise"]


def replay(run, rp):
    from ._twin import replay_any

    replay_any(run, rp)
