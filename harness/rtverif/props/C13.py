"""C13 - EVO script commands agree with the volume tracking and with their arguments."""
from ..common import rng
from ..drivers import evo
from ._twin import replay_programs, run_programs


def check(run, tier):
    run.rule = (
        "model: the RTRobot interpreter gives B;Aspirate / B;Dispense their EVOware meaning (selected tips ascending serve "
        "selected wells ascending, slot i belongs to tip i); MC_Evo checks on a 4x2 plate and a 4x1 trough that for every "
        "expressible call the reference command reproduces the tracked delta and that non-expressible assignments differ; "
        "implementation: evo_aspirate / evo_dispense with canonical, consistently permuted, mismatched, duplicated, "
        "two-column, miscounted and out-of-range arguments on plates up to 16x24 and troughs, plus evo_wash parameter "
        "tuples on a boundary grid; judged by Trace_Twin (C13.delta = robot execution of the decoded command equals the "
        "logged twin, C13.echo, C13.accept, C13.reject, C13.wash.*, C10.evomask, C10.evoslots); distinct = distinct programs"
    )
    q = tier == "quick"
    run.mc("MC_Evo")
    r = rng("C13")
    progs = evo.targeted_programs() + evo.rounding_programs()
    for i in range(150 if q else 4000):
        progs.append(evo.evo_program(r, f"C13/r{i}", r.randint(2, 8)))
    run_programs(run, progs)


def replay(run, rp):
    from ._twin import replay_any

    replay_any(run, rp)
