"""C19 - get_trough_wells cycles through the given wells and returns exactly n."""
from ..calls import wid
from ._util import replay_calls, run_calls


def cases(tier, rng):
    ps = []
    nmax = 80 if tier == "quick" else 200
    lens = list(range(1, 27))
    for ln in lens:
        ids = [wid(r, 0) for r in range(ln)]
        shapes = [
            ({"k": "l", "x": ids}, "list"),
            ({"k": "l", "x": ids}, "ndarray"),
            ({"k": "m", "x": [[i] for i in ids]}, "ndarray"),  # column slice kept 2-D (trough.wells[:, [0]])
            ({"k": "m", "x": [[i] for i in ids]}, "list"),     # the same table as nested lists (trough.wells.tolist())
            ({"k": "l", "x": ids}, "tuple"),
            ({"k": "l", "x": ids}, "object"),                  # a column of a mixed table (object dtype holding Python strings)
            ({"k": "m", "x": [[i] for i in ids]}, "object"),
        ]
        if ln >= 3:
            # a collection that names a well more than once is cycled as given
            rep = ids[:2] + [ids[0]] + ids[2:]
            shapes.append(({"k": "l", "x": rep}, "list"))
            shapes.append(({"k": "l", "x": rep + rep[:1]}, "ndarray"))
        if ln % 2 == 0:
            # 2-D id array with two columns as trough.wells of a two-column trough
            h = ln // 2
            shapes.append(({"k": "m", "x": [[wid(r, 0), wid(r, 1)] for r in range(h)]}, "ndarray"))
            shapes.append(({"k": "m", "x": [[wid(r, 0), wid(r, 1)] for r in range(h)]}, "fortran"))
            shapes.append(({"k": "m", "x": [[wid(r, 0), wid(r, 1)] for r in range(h)]}, "list"))
        if tier == "quick":
            ns = sorted(set([0, 1, ln - 1, ln, ln + 1, 2 * ln, 3 * ln, 3 * ln + 1] + [rng.randint(0, nmax) for _ in range(4)]))
        else:
            ns = list(range(0, nmax + 1))
        for wells, present in shapes:
            for n in ns:
                if n < 0:
                    continue
                ps.append({"x": "tw", "n": n, "ncls": "int", "wells": wells, "present": present, "len": ln})
        # large n: a 1536-well plate served from one trough well, thousands of steps from a few wells
        if ln in (1, 2, 3, 8, 26):
            for n in ((1536, 4097) if tier == "quick" else (384, 1536, 4097, 10000)):
                ps.append({"x": "tw", "n": n, "ncls": "int", "wells": shapes[0][0], "present": "list" if ln != 8 else "ndarray", "len": ln})
        # results are fresh lists: editing one must not influence a later call with equal arguments
        for n in (1, ln, 2 * ln + 1):
            ps.append({"x": "tw", "n": n, "ncls": "int", "wells": shapes[0][0], "present": "list", "len": ln, "mutate": True})
        # rejected: negative and non-integer n
        ps.append({"x": "tw", "n": -1, "ncls": "int", "wells": shapes[0][0], "present": "list", "len": ln})
        ps.append({"x": "tw", "n": -rng.randint(2, 50), "ncls": "int", "wells": shapes[0][0], "present": "list", "len": ln})
        ps.append({"x": "tw", "n": rng.randint(0, 30), "ncls": "float", "wells": shapes[0][0], "present": "list", "len": ln})
        ps.append({"x": "tw", "n": rng.randint(0, 30), "ncls": "intfloat", "wells": shapes[0][0], "present": "list", "len": ln})
        # narrow numpy integers close to the maximum of their type (if they are accepted at all, the result is that of the int)
        for n8 in (125, 127, 120 + (ln % 7)):
            ps.append({"x": "tw", "n": n8, "ncls": "np8", "wells": shapes[0][0], "present": "list", "len": ln})
        ps.append({"x": "tw", "n": 250 + (ln % 5), "ncls": "npu8", "wells": shapes[0][0], "present": "list", "len": ln})
    # identifiers of different widths in one collection (columns 99 and 100, 9 and 10 and 100): taken as they are
    for ids in (["A99", "A100"], ["A100", "A99"], ["B09", "B10", "B100"], ["A01", "A100", "A10", "A1000"]):
        for present in ("list", "ndarray", "tuple", "object"):
            for n in (0, 1, 2, 3, 5, 8):
                ps.append({"x": "tw", "n": n, "ncls": "int", "wells": {"k": "l", "x": ids}, "present": present, "len": len(ids)})
    # empty well collections
    for n in (0, 1, 5):
        ps.append({"x": "tw", "n": n, "ncls": "int", "wells": {"k": "l", "x": []}, "present": "list", "len": 0})
        ps.append({"x": "tw", "n": n, "ncls": "int", "wells": {"k": "l", "x": []}, "present": "ndarray", "len": 0})
        ps.append({"x": "tw", "n": n, "ncls": "int", "wells": {"k": "l", "x": []}, "present": "tuple", "len": 0})
        # 2-D arrays without elements although their first axis is not empty (trough.wells[:, 1:] of a one-column trough)
        for rows in (1, 3, 8):
            for present in ("ndarray", "fortran", "list"):
                ps.append({"x": "tw", "n": n, "ncls": "int", "wells": {"k": "m", "x": [[] for _ in range(rows)]}, "present": present, "len": 0})
    return ps


def check(run, tier):
    from ..common import rng

    run.rule = (
        "model: MC_Trough checks the cycling lemmas of TroughWells for all n and lengths of the instance; implementation: "
        "get_trough_wells(n, wells) for every (n, len) of the grid and four input shapes, judged by Trace_Calls against "
        "TroughWells over the column-major flattening; distinct = distinct (n, wells, presentation) tuples; non-trivial = n > 0"
    )
    run.mc("MC_Trough", "MC_Trough" if tier == "quick" else "MC_Trough_thorough")
    run_calls(run, cases(tier, rng("C19")), nontrivial=lambda r: r["n"] > 0)
    run.extra["exhaustive"] = tier == "thorough"


def replay(run, rp):
    from ._twin import replay_any

    replay_any(run, rp)
