"""C07 - transfers move each requested volume between the paired wells, one tip at a time."""
import itertools
from fractions import Fraction

from ..common import rng
from ..drivers import behaviours
from ..drivers import programs, targeted
from ._twin import replay_programs, run_programs, run_suite


def check(run, tier):
    run.rule = (
        "model: MC_Twin transfer family, step check InvPlan = the reference plan satisfies the contract PairsOK, FlowsOK, "
        "StepsOK, BreaksOK for every argument tuple of the instance; implementation: transfers with 1..12 triples with "
        "repeats, every permutation of lists up to 4 triples, all wash schemes, partition modes, DiTi on/off and keyword "
        "pass-through on both devices, judged by Trace_Twin (C07.pairs, C07.flows, C07.breaks, C07.accept, C07.reject); "
        "distinct = distinct programs; non-trivial = a transfer emitted at least one pair"
    )
    q = tier == "quick"
    run.mc("MC_Twin", "MC_Twin_transfer_q" if q else "MC_Twin_transfer")
    r = rng("C07")
    progs = []
    for dev in ("evo", "fluent"):
        progs += targeted.worklist_programs(dev) + targeted.permutation_programs(dev, 3 if q else 4) + targeted.reject_programs(dev)
        progs += [p for p in targeted.split_programs(dev) if "multidisp" not in p["id"]]
        progs += [p for p in targeted.round2_programs(dev) if "nosplit" in p["id"] or "same-format" in p["id"] or "mix-in-place" in p["id"]]
    for dev in ("evo", "fluent"):
        progs += targeted.config_programs(dev)
    for dev in ("evo", "fluent"):
        progs += [p for p in targeted.shape_programs(dev) if "broadcast" in p["id"]]
    # volumes far below and far above what the records can print (1/1024 and 2^-40 microlitre, units of 1024 microlitres)
    r4 = rng("C07-units")
    for i in range(30 if q else 600):
        dev = "evo" if i % 2 == 0 else "fluent"
        unit = [Fraction(1, 1024), Fraction(1, 2**40), Fraction(2**10)][i % 3]
        progs.append(programs.worklist_program(r4, f"C07/u{i}", dev, r4.randint(1, 5), unit=unit, maxunits=64, wlmax=r4.choice([7, 100]), comps=False,
                                               flags={"records": False, "robot": False},
                                               weights={"transfer": 1, "distribute": 0, "aspirate": 0, "dispense": 0, "add": 0, "remove": 0}))
    for p in targeted.device_programs():
        if "wash-schemes" in p["id"]:
            progs += [p, dict(p, dev="fluent", id=p["id"] + "/fluent")]
    n = 120 if q else 3000
    for i in range(n):
        dev = "evo" if i % 2 == 0 else "fluent"
        p = programs.worklist_program(r, f"C07/r{i}", dev, r.randint(1, 4), unit=Fraction(1), maxunits=60, wlmax=r.choice([3, 5, 7]),
                                      comps=False, diti=(i % 5 == 0), small=False, autosplit=(i % 4 != 1),
                                      weights={"transfer": 1, "distribute": 0, "aspirate": 0, "dispense": 0, "add": 0, "remove": 0},
                                      transfer_kw={"nmax": 12, "kwargs": True})
        progs.append(p)
    # transfers that must be refused (a volume beyond what the wells allow, a negative volume) under every configuration
    r5 = rng("C07-faults")
    for i in range(60 if q else 1200):
        dev = "evo" if i % 2 == 0 else "fluent"
        progs.append(programs.worklist_program(r5, f"C07/f{i}", dev, r5.randint(1, 3), unit=Fraction(1), maxunits=60, wlmax=r5.choice([3, 5, 70]),
                                               comps=False, small=False, autosplit=(i % 4 < 2), fault=0.5, reconfig_prob=0.2,
                                               weights={"transfer": 1, "distribute": 0, "aspirate": 0, "dispense": 0, "add": 0, "remove": 0},
                                               transfer_kw={"nmax": 6}))
    # specification -> code: behaviours enumerated by TLC on the bounded model, replayed on the implementation
    for cfg in ("MC_TwinGen_transferq1",) if q else ("MC_TwinGen_transferq1", "MC_TwinGen_transfer1"):
        mprogs, res = behaviours.generate(cfg, timeout=3000)
        if not mprogs:
            run.machinery_errors.append(f"behaviour generation with {cfg} failed: {res.errors[:2]}")
        run.states += res.distinct
        run.transitions += res.generated
        if q and len(mprogs) > 400:
            # quick tier: a seeded sample of the enumerated behaviours (thorough replays all of them)
            k = len(mprogs) // 400 + 1
            mprogs = mprogs[r.randrange(k)::k]
        # what the enumerated behaviours contain (non-vacuity of the model: rejected operations are transitions too)
        stats = run.extra.setdefault("model_outcomes", {})
        for mp in mprogs:
            for mo in mp["ops"]:
                key = mo["op"] + ":" + mo["model"]["out"]
                stats[key] = stats.get(key, 0) + 1
        run.extra.setdefault("model_behaviours_replayed", 0)
        run.extra["model_behaviours_replayed"] += len(mprogs)
        progs += mprogs
    run_programs(run, progs)

    # the repository's own test-suite, recorded and judged step by step
    run_suite(run)


def replay(run, rp):
    from ._twin import replay_any

    replay_any(run, rp)
