"""One run of one property check: model checking, conformance, verdicts, evidence."""
import hashlib
import json
import os
import sys
import tempfile
import time

from . import findings
from .common import SPEC, VERIF, seed

OUT = os.environ.get("VERIF_OUT", VERIF)  # where evidence/ and replays/ are written (self-tests redirect it)
from .tlc import TLCFailure, run_tlc


class Run:
    def __init__(self, pid, tier, level="model_checking"):
        self.pid = pid
        self.tier = tier
        self.level = level
        self.t0 = time.time()
        self.states = 0
        self.transitions = 0
        self.mc_runs = []
        self.traces = 0  # implementation traces / call batches validated
        self.events = 0  # judged implementation steps
        self.counters = {}
        self.violations = []  # dicts
        self.known = []
        self.context = []  # failures of other properties' clauses seen on the way
        self.samples = []
        self.distinct = set()
        self.notes = []
        self.assumptions = []
        self.extra = {}
        self.rule = ""
        self.machinery_errors = []
        self.known_db = findings.load()
        self.is_replay = False

    # ------------------------------------------------------------------ model checking
    def mc(self, module, cfg=None, workers=None, timeout=1800, expect_violation=None, coverage=False, **kw):
        """Run TLC on spec/mc/<module>.tla. A violated invariant is a model-level violation."""
        if os.environ.get("VERIF_SKIP_MC") == "1":
            # self-test mode only (evaluating code mutants): the bounded models do not depend on the code under test
            self.notes.append(f"model checking of {module} skipped (VERIF_SKIP_MC=1)")
            return None
        tla = os.path.join(SPEC, "mc", module + ".tla")
        cfgp = os.path.join(SPEC, "mc", (cfg or module) + ".cfg")
        w = workers or (os.cpu_count() or 4)
        res = run_tlc(tla, cfgp, workers=w, timeout=timeout, coverage=coverage, **kw)
        self.states += res.distinct
        self.transitions += res.generated
        info = {
            "module": module,
            "cfg": os.path.basename(cfgp),
            "distinct_states": res.distinct,
            "states_generated": res.generated,
            "depth": res.depth,
            "wall_s": round(res.wall, 2),
            "violated": res.violated,
        }
        self.mc_runs.append(info)
        if res.errors and not res.violated:
            self.machinery_errors.append(f"TLC error in {module}: {res.errors[:3]}\n" + res.stdout[-3000:])
        for v in res.violated:
            self.violations.append(
                {
                    "clause": f"{self.pid}.model.{v}",
                    "what": f"invariant {v} violated in model {module} ({os.path.basename(cfgp)})",
                    "item": {"model": module, "cfg": os.path.basename(cfgp), "tlc_tail": res.stdout[-4000:]},
                    "sig": f"model:{module}:{v}",
                }
            )
        return res

    # ------------------------------------------------------------------ unbounded companions (TLAPS, Apalache)
    def tlaps(self, name, timeout=600):
        """Check spec/proofs/<name>.tla with the TLA+ proof system in a scratch copy."""
        import re
        import shutil
        import subprocess
        import tempfile

        if os.environ.get("VERIF_SKIP_MC") == "1":
            return
        d = tempfile.mkdtemp(prefix="rtv_tlaps_")
        try:
            shutil.copy(os.path.join(SPEC, "proofs", name + ".tla"), d)
            try:
                p = subprocess.run(["tlapm", "--cleanfp", name + ".tla"], cwd=d, capture_output=True, text=True, timeout=timeout)
                out = p.stdout + p.stderr
            except subprocess.TimeoutExpired:
                out = "timeout"
            m = re.search(r"All (\d+) obligations? proved", out)
            info = {"proof": name, "obligations_proved": int(m.group(1)) if m else 0, "all_proved": bool(m)}
            self.extra.setdefault("tlaps", []).append(info)
            if not m:
                self.machinery_errors.append(f"TLAPS did not prove {name}: {out[-600:]}")
        finally:
            shutil.rmtree(d, ignore_errors=True)

    def apalache(self, name, init, inv, cinit=None, length=1, timeout=600):
        """Bounded symbolic check of spec/apalache/<name>.tla (used for inductive invariants)."""
        import shutil
        import subprocess
        import tempfile

        if os.environ.get("VERIF_SKIP_MC") == "1":
            return
        d = tempfile.mkdtemp(prefix="rtv_apa_")
        try:
            shutil.copy(os.path.join(SPEC, "apalache", name + ".tla"), d)
            cmd = ["apalache-mc", "check", f"--init={init}", f"--inv={inv}", f"--length={length}", f"--out-dir={d}/out"]
            if cinit:
                cmd.append(f"--cinit={cinit}")
            cmd.append(name + ".tla")
            try:
                p = subprocess.run(cmd, cwd=d, capture_output=True, text=True, timeout=timeout)
                out = p.stdout + p.stderr
            except subprocess.TimeoutExpired:
                out = "timeout"
            ok = "The outcome is: NoError" in out
            self.extra.setdefault("apalache", []).append({"module": name, "init": init, "inv": inv, "length": length, "no_error": ok})
            if "The outcome is: Error" in out:
                self.violations.append({"clause": f"{self.pid}.model.apalache.{inv}", "what": f"Apalache found a counterexample to {inv} in {name}",
                                        "item": {"model": name, "tail": out[-1500:]}, "sig": f"apalache:{name}:{inv}"})
            elif not ok:
                self.notes.append(f"Apalache did not finish on {name}/{inv} (dropped, not a verdict): {out[-200:]!r}")
        finally:
            shutil.rmtree(d, ignore_errors=True)

    # ------------------------------------------------------------------ conformance
    def validate(self, trace_module, payload, items, sig_fn=None, workers=1, timeout=1200, heap="6g"):
        """Have TLC judge a batch of implementation observations.

        payload: JSON value written to TRACE_FILE; items: list parallel to what the spec's tag
        refers to (tag.i is the 1-based index) used for replay files and signatures."""
        if not items:
            return []
        tla = os.path.join(SPEC, "trace", trace_module + ".tla")
        cfgp = os.path.join(SPEC, "trace", trace_module + ".cfg")
        fd, path = tempfile.mkstemp(prefix="rtv_trace_", suffix=".json")
        try:
            with os.fdopen(fd, "w") as f:
                json.dump(payload, f, ensure_ascii=True)
            res = run_tlc(tla, cfgp, env={"TRACE_FILE": path}, workers=workers, timeout=timeout, want_out=True, heap=heap)
        finally:
            try:
                os.unlink(path)
            except OSError:
                pass
        if res.out is None or res.errors or res.violated:
            self.machinery_errors.append(
                f"trace validation with {trace_module} did not complete: {res.errors[:3]} {res.violated}\n" + res.stdout[-3000:]
            )
            return []
        self.states += res.distinct
        self.transitions += res.generated
        out = res.out
        judged = out.get("judged", 0)
        self.events += judged
        expected = payload.get("expect_judged")
        if expected is not None and judged != expected:
            self.machinery_errors.append(f"{trace_module}: judged {judged} steps, expected {expected}")
        for k, v in (out.get("counters") or {}).items():
            self.counters[k] = self.counters.get(k, 0) + v
        verdicts = out.get("verdicts") or []
        for v in verdicts:
            at = v["at"]
            idx = (at.get("i", at.get("tid", 0)) - 1) if isinstance(at, dict) else int(at) - 1
            item = items[idx] if 0 <= idx < len(items) else None
            for clause in sorted(v["failed"]):
                sig = sig_fn(item, clause, at) if sig_fn else ""
                rec = {"clause": clause, "at": at, "item": item, "sig": sig, "what": f"{clause} failed at {json.dumps(at)}"}
                if clause.startswith("machinery."):
                    self.machinery_errors.append(f"{clause} at {at}")
                elif clause.startswith(self.pid + "."):
                    self.violations.append(rec)
                else:
                    self.context.append(rec)
        return verdicts

    # ------------------------------------------------------------------ bookkeeping
    def note_case(self, key, nontrivial=True):
        if nontrivial:
            self.distinct.add(key)

    def sample(self, s):
        if len(self.samples) < 3:
            self.samples.append(s)

    # ------------------------------------------------------------------ finishing
    def finish(self):
        wall = time.time() - self.t0
        unexplained = []
        seen_known = {}
        for v in self.violations:
            k = findings.match(self.known_db, self.pid, v["clause"], v.get("sig", ""))
            if k is not None:
                seen_known.setdefault(k["key"], [k, 0])[1] += 1
            else:
                unexplained.append(v)
        for key, (k, n) in sorted(seen_known.items()):
            print(f"KNOWN-FINDING: property={self.pid} {k['key']} {k['text']} (seen {n}x)")
        # vacuity guard: every clause of this property that the spec evaluated must have applied at least once
        vacuous = sorted(k for k, n in self.counters.items() if k.startswith(self.pid + ".") and n == 0)
        replay_paths = []
        os.makedirs(os.path.join(OUT, "replays"), exist_ok=True)
        groups = {}
        for v in unexplained:
            groups.setdefault((v["clause"], v.get("sig", "")), []).append(v)
        per_clause = {}
        for (clause, sig), vs in sorted(groups.items()):
            per_clause[clause] = per_clause.get(clause, 0) + 1
            if per_clause[clause] > 3:
                continue
            v = vs[0]
            blob = json.dumps({"p": self.pid, "c": clause, "i": v["item"]}, sort_keys=True, default=str)
            h = hashlib.sha1(blob.encode()).hexdigest()[:12]
            path = os.path.join(OUT, "replays", f"{self.pid}-{h}.json")
            with open(path, "w") as f:
                json.dump(
                    {
                        "property": self.pid,
                        "clause": clause,
                        "signature": sig,
                        "occurrences": len(vs),
                        "seed": seed(),
                        "tier": self.tier,
                        "at": v.get("at"),
                        "item": v["item"],
                    },
                    f,
                    indent=1,
                    default=str,
                )
            replay_paths.append(path)
            print(f"VIOLATION property={self.pid} replay={path}")
            print(f"  clause={clause} sig={sig} occurrences={len(vs)} (distinct failing cases for this property: {len(groups)})")
        shown = 0
        for c in self.context:
            other = c["clause"].split(".")[0]
            if findings.match(self.known_db, other, c["clause"], c.get("sig", "")) is not None:
                continue  # a listed known finding of another property
            if shown < 5:
                print(f"  context: clause {c['clause']} of another property failed at {json.dumps(c['at'])}")
            shown += 1
        for n in self.notes[:20]:
            print("NOTE " + n)
        cov = {
            "states": self.states,
            "transitions": self.transitions,
            "traces_validated_against_impl": self.traces,
            "samples": self.samples or ["(no sample recorded)"],
            "evaluations": self.events,
            "distinct_nontrivial": len(self.distinct),
            "rule": self.rule,
            "model_runs": self.mc_runs,
            "clause_applicability": {k: v for k, v in sorted(self.counters.items()) if k.startswith(self.pid + ".")},
            "vacuous_clauses": vacuous,
            "known_findings_seen": sorted(seen_known),
        }
        cov.update(self.extra)
        ev = {
            "property_id": self.pid,
            "tier": self.tier,
            "seed": seed(),
            "level": self.level,
            "coverage": cov,
            "assumptions": self.assumptions,
            "wall_s": round(wall, 2),
            "violations": len(unexplained),
        }
        if not self.is_replay:
            os.makedirs(os.path.join(OUT, "evidence"), exist_ok=True)
            with open(os.path.join(OUT, "evidence", f"{self.pid}.json"), "w") as f:
                json.dump(ev, f, indent=1, default=str)
        if self.machinery_errors:
            for m in self.machinery_errors[:5]:
                print("MACHINERY-ERROR " + m, file=sys.stderr)
            print(f"{self.pid}: machinery failure (exit 2)")
            return 2
        if vacuous:
            print(f"NOTE clauses of {self.pid} that were evaluated but never applicable in this run: {vacuous}")
        if unexplained:
            return 1
        print(
            f"{self.pid}: ok  tier={self.tier} seed={seed()} states={self.states} transitions={self.transitions} "
            f"impl_traces={self.traces} judged_steps={self.events} wall={wall:.1f}s"
        )
        return 0
