"""Executors: run one observation of the real implementation and project it for Trace_Calls.

Generation (which parameters) and execution (call robotools, log) are separate so that a
replay file only needs the parameters.  No expected value is ever computed here."""
import string

import numpy as np

from .common import outcome_class, robotools

LETTERS = string.ascii_uppercase
EXEC = {}


def executor(name):
    def deco(f):
        EXEC[name] = f
        return f

    return deco


def execute(params):
    """params: {"x": executor name, ...}.  Returns the logged call (with the parameters for replay)."""
    rec = EXEC[params["x"]](params)
    rec["re"] = params
    return rec


def wid(r, c):
    """Well identifier as the Tecan convention writes it; never asked from the code."""
    return LETTERS[r] + f"{c + 1:02d}"


def shape_arg(a, conv=lambda e: e, present="list"):
    """Turn a logged shape argument {"k","x"} into the Python value passed to the code."""
    if a["k"] == "s":
        return conv(a["x"])
    if a["k"] == "l":
        v = [conv(e) for e in a["x"]]
    else:
        v = [[conv(e) for e in row] for row in a["x"]]
    if present == "ndarray":
        return np.array(v)
    if present == "tuple" and a["k"] == "l":
        return tuple(v)
    return v


def _int(x, bad=-1):
    try:
        if isinstance(x, (int, np.integer)) and not isinstance(x, bool):
            return int(x)
    except Exception:
        pass
    return bad


# ----------------------------------------------------------------------------- C08
@executor("geom")
def x_geom(p):
    rt = robotools()
    import warnings

    R, C, V = p["rows"], p["cols"], p["vrows"]
    if V:
        lw = rt.Trough("L", V, C, min_volume=0, max_volume=10)
        idrows = V
    else:
        lw = rt.Labware("L", R, C, min_volume=0, max_volume=10)
        idrows = R
    from robotools.evotools import utils as eu
    from robotools.fluenttools import utils as fu

    evo, flu, idx, pos = [], [], [], []
    with warnings.catch_warnings():
        warnings.simplefilter("ignore")
        positions = lw.positions
    for r in range(idrows):
        for c in range(C):
            w = wid(r, c)
            try:
                evo.append(_int(eu.get_well_position(lw, w)))
            except Exception:
                evo.append(-1)
            try:
                flu.append(_int(fu.get_well_position(lw, w)))
            except Exception:
                flu.append(-1)
            try:
                t = lw.indices[w]
                idx.append([_int(t[0]), _int(t[1])])
            except Exception:
                idx.append([-1, -1])
            try:
                pos.append(_int(positions[w]))
            except Exception:
                pos.append(-1)
    rec = {
        "fn": "geom",
        "id": f"{'T' if V else 'P'}{R}x{C}v{V}",
        "rows": R,
        "cols": C,
        "vrows": V,
        "evo": evo,
        "fluent": flu,
        "idx": idx,
        "pos": pos,
        "nidx": len(lw.indices),
        "npos": len(positions),
        "wells": [[str(x) for x in row] for row in lw.wells.tolist()],
        "shape": [int(x) for x in lw.shape],
        "nrows": int(lw.n_rows),
        "ncols": int(lw.n_columns),
        "volshape": [int(x) for x in lw.volumes.shape],
        "mwa": [],
        "mwi": [],
        "nmwi": 0,
    }
    if not V:
        rec["mwa"] = [[str(x) for x in row] for row in rt.make_well_array(R, C).tolist()]
        d = rt.make_well_index_dict(R, C)
        rec["nmwi"] = len(d)
        mwi = []
        for r in range(R):
            for c in range(C):
                t = d.get(wid(r, c), (-1, -1))
                mwi.append([_int(t[0]), _int(t[1])])
        rec["mwi"] = mwi
    return rec


# ----------------------------------------------------------------------------- C19
@executor("tw")
def x_tw(p):
    rt = robotools()
    wells = p["wells"]  # shape argument of id strings
    arg = shape_arg(wells, present=p.get("present", "list"))
    ncls = p["ncls"]
    n = p["n"]
    if ncls == "float":
        n_arg = float(n) + 0.5
    elif ncls == "intfloat":
        n_arg = float(n)
    else:
        n_arg = n
    res, exc = [], None
    try:
        out = rt.get_trough_wells(n_arg, arg)
        res = [str(x) for x in out]
    except Exception as e:  # noqa
        exc = e
    return {
        "fn": "tw",
        "id": f"n={n_arg} len={p.get('len')} k={wells['k']}",
        "n": n,
        "ncls": ncls,
        "wells": wells,
        "out": outcome_class(exc),
        "res": res,
    }
