"""Executors: run one observation of the real implementation and project it for Trace_Calls.

Generation (which parameters) and execution (call robotools, log) are separate so that a
replay file only needs the parameters.  No expected value is ever computed here."""
import string

import numpy as np

from .common import outcome_class, robotools

LETTERS = string.ascii_uppercase
EXEC = {}


def executor(name):
    def deco(f):
        EXEC[name] = f
        return f

    return deco


def execute(params):
    """params: {"x": executor name, ...}.  Returns the logged call (with the parameters for replay)."""
    rec = EXEC[params["x"]](params)
    rec["re"] = params
    return rec


def wid(r, c):
    """Well identifier as the Tecan convention writes it; never asked from the code."""
    return LETTERS[r] + f"{c + 1:02d}"


def shape_arg(a, conv=lambda e: e, present="list"):
    """Turn a logged shape argument {"k","x"} into the Python value passed to the code."""
    if a["k"] == "s":
        return conv(a["x"])
    if a["k"] == "l":
        v = [conv(e) for e in a["x"]]
    else:
        v = [[conv(e) for e in row] for row in a["x"]]
    if present == "ndarray":
        return np.array(v)
    if present == "object":
        return np.array(v, dtype=object)
    if present == "zerod" and a["k"] == "s":
        return np.array(conv(a["x"]))          # a 0-d array holding one id
    if present == "view":
        # a strided / offset view into a larger array (every second element of a padded copy)
        base = np.array(v)
        if base.ndim == 1 and base.size:
            big = np.empty(2 * base.size + 1, dtype=base.dtype)
            big[:] = base[0]
            big[1::2] = base
            return big[1::2]
        if base.ndim == 2 and base.size:
            big = np.empty((base.shape[0] + 2, base.shape[1] + 1), dtype=base.dtype)
            big[:] = base[0, 0]
            big[1:-1, 1:] = base
            return big[1:-1, 1:]
        return base
    if present == "fortran":
        # same logical array, column-major memory layout (as produced by .T, asfortranarray, order="F" reshapes)
        return np.asfortranarray(np.array(v))
    if present == "tuple" and a["k"] == "l":
        return tuple(v)
    return v


def _int(x, bad=-1):
    try:
        if isinstance(x, (int, np.integer)) and not isinstance(x, bool):
            return int(x)
    except Exception:
        pass
    return bad


# ----------------------------------------------------------------------------- C08
@executor("geom")
def x_geom(p):
    rt = robotools()
    import warnings

    R, C, V = p["rows"], p["cols"], p["vrows"]
    if V and p.get("via") == "labware":
        # a trough built through the generic constructor (legal, emits a UserWarning)
        with warnings.catch_warnings():
            warnings.simplefilter("ignore")
            lw = rt.Labware("L", 1, C, min_volume=0, max_volume=10, virtual_rows=V)
        idrows = V
    elif V:
        lw = rt.Trough("L", V, C, min_volume=0, max_volume=10)
        idrows = V
    else:
        lw = rt.Labware("L", R, C, min_volume=0, max_volume=10)
        idrows = R
    from robotools.evotools import utils as eu
    from robotools.fluenttools import utils as fu

    evo, flu, idx, pos = [], [], [], []
    with warnings.catch_warnings():
        warnings.simplefilter("ignore")
        positions = lw.positions
    for r in range(idrows):
        for c in range(C):
            w = wid(r, c)
            try:
                evo.append(_int(eu.get_well_position(lw, w)))
            except Exception:
                evo.append(-1)
            try:
                flu.append(_int(fu.get_well_position(lw, w)))
            except Exception:
                flu.append(-1)
            try:
                t = lw.indices[w]
                idx.append([_int(t[0]), _int(t[1])])
            except Exception:
                idx.append([-1, -1])
            try:
                pos.append(_int(positions[w]))
            except Exception:
                pos.append(-1)
    badcols = []
    for rr in sorted({0, idrows - 1}):
        for ident in (f"{chr(65 + rr)}00", f"{chr(65 + rr)}0", f"{chr(65 + rr)}000", f"{chr(65 + rr)}{C + 1:02d}", f"{chr(65 + rr)}{C + 9}"):
            one = {"id": ident, "evo": -1, "fluent": -1}
            for key, mod in (("evo", eu), ("fluent", fu)):
                try:
                    one[key] = _int(mod.get_well_position(lw, ident), bad=-2)
                except Exception:
                    one[key] = -1
            badcols.append(one)
    # identifiers with two row letters have no EVO position (the Fluent resolver is lenient about row letters, see above)
    for ident in ("AB01", "BC01", "AA01", "ba01"):
        one = {"id": ident, "evo": -1, "fluent": -1}
        try:
            one["evo"] = _int(eu.get_well_position(lw, ident), bad=-2)
        except Exception:
            one["evo"] = -1
        badcols.append(one)
    rec = {
        "fn": "geom",
        "badcols": badcols,
        "id": f"{'T' if V else 'P'}{R}x{C}v{V}" + ("/labware" if p.get("via") == "labware" else ""),
        "rows": R,
        "cols": C,
        "vrows": V,
        "evo": evo,
        "fluent": flu,
        "idx": idx,
        "pos": pos,
        "nidx": len(lw.indices),
        "npos": len(positions),
        "wells": [[str(x) for x in row] for row in lw.wells.tolist()],
        "shape": [int(x) for x in lw.shape],
        "nrows": int(lw.n_rows),
        "ncols": int(lw.n_columns),
        "volshape": [int(x) for x in lw.volumes.shape],
        "mwa": [],
        "mwi": [],
        "nmwi": 0,
    }
    if not V:
        rec["mwa"] = [[str(x) for x in row] for row in rt.make_well_array(R, C).tolist()]
        d = rt.make_well_index_dict(R, C)
        rec["nmwi"] = len(d)
        mwi = []
        for r in range(R):
            for c in range(C):
                t = d.get(wid(r, c), (-1, -1))
                mwi.append([_int(t[0]), _int(t[1])])
        rec["mwi"] = mwi
    return rec


# ----------------------------------------------------------------------------- C19
@executor("tw")
def x_tw(p):
    rt = robotools()
    wells = p["wells"]  # shape argument of id strings
    arg = shape_arg(wells, present=p.get("present", "list"))
    ncls = p["ncls"]
    n = p["n"]
    if ncls == "float":
        n_arg = float(n) + 0.5
    elif ncls == "intfloat":
        n_arg = float(n)
    elif ncls == "np8":
        n_arg = np.int8(n)
    elif ncls == "npu8":
        n_arg = np.uint8(n)
    else:
        n_arg = n
    res, exc, islist = [], None, False
    try:
        out = rt.get_trough_wells(n_arg, arg)
        if p.get("mutate"):
            # a caller edits the list it got; a later call with equal arguments must not see that
            if isinstance(out, list):
                out.reverse()
                out.append("Z99")
                if len(out) > 2:
                    out.pop(0)
            out = rt.get_trough_wells(n_arg, arg)
        res = [str(x) for x in out]
        islist = isinstance(out, list)
    except Exception as e:  # noqa
        exc = e
    return {
        "fn": "tw",
        "islist": bool(islist),
        "id": f"n={n_arg} len={p.get('len')} k={wells['k']}" + (" after-mutation" if p.get("mutate") else ""),
        "n": n,
        "ncls": ncls,
        "wells": wells,
        "out": outcome_class(exc),
        "res": res,
    }


# ----------------------------------------------------------------------------- helpers for units
def _unit(p):
    from fractions import Fraction

    return Fraction(p["unit"][0], p["unit"][1])


def _to_units(x, unit):
    from .twin import to_units

    return to_units(x, unit)


# ----------------------------------------------------------------------------- C06
@executor("split")
def x_split(p):
    from robotools.worklists.utils import partition_volume

    unit = _unit(p)
    v = float(p["v"] * unit)
    M = float(p["M"] * unit)
    if p.get("mint") and M.is_integer():
        M = int(M)
    if p.get("vint") and v.is_integer():
        v = int(v)
    steps, exc = [], None
    try:
        res = partition_volume(v, max_volume=M)
        steps = [_to_units(s, unit) for s in res]
    except Exception as e:  # noqa
        exc = e
    return {"fn": "split", "id": f"v={p['v']} M={p['M']} unit={p['unit'][0]}/{p['unit'][1]}", "v": p["v"], "M": p["M"],
            "out": outcome_class(exc), "steps": steps}


# ----------------------------------------------------------------------------- C10
@executor("mask")
def x_mask(p):
    from . import lexer
    from .twin import tip_arg_log, tip_arg_value

    rt = robotools()
    wl = rt.EvoWorklist() if p.get("dev", "evo") == "evo" else rt.FluentWorklist()
    exc = None
    try:
        f = wl.aspirate_well if p["via"] == "A" else wl.dispense_well
        f("rack", 3, 10, tip=tip_arg_value(p["tip"]))
    except Exception as e:  # noqa
        exc = e
    recs = [lexer.lex(r) for r in wl]
    return {"fn": "mask", "id": f"{p['via']} {p['tip']}", "tip": tip_arg_log(p["tip"]), "via": p["via"], "out": outcome_class(exc),
            "nrec": len(recs), "mask": recs[0].get("tip", lexer.BAD) if recs and recs[0].get("t") in ("A", "D") else lexer.BAD,
            "rt": recs[0].get("t", "?") if recs else ""}


# ----------------------------------------------------------------------------- C12
@executor("sel")
def x_sel(p):
    from robotools.evotools import commands as c

    R, C = p["rows"], p["cols"]
    sel = [list(w) for w in p["sel"]]
    ids = [wid(r, cc) for r, cc in sel]
    exc, codes, arr_ok = None, [], True
    try:
        arr = c.evo_make_selection_array(R, C, np.array(ids) if p.get("nd") else ids)
        if p.get("other") is not None:
            # a second selection of the same geometry is made before the first one is encoded (both are alive)
            other = c.evo_make_selection_array(R, C, [wid(r, cc) for r, cc in p["other"]])
        want = np.zeros((R, C))
        # the selection array itself is part of the interface: it must mark exactly the selected wells
        marked = sorted((int(r), int(cc)) for r, cc in zip(*np.nonzero(arr)))
        arr_ok = arr.shape == (R, C) and marked == sorted(set((r, cc) for r, cc in sel)) and set(np.unique(arr)) <= {0.0, 1.0}
        s = c.evo_get_selection(R, C, arr)
        codes = [ord(ch) for ch in s]
    except Exception as e:  # noqa
        exc = e
    return {"fn": "sel", "id": f"{R}x{C}:{len(sel)}:{p.get('tag', '')}", "rows": R, "cols": C, "sel": sel, "out": outcome_class(exc),
            "codes": codes, "arrok": bool(arr_ok)}


# ----------------------------------------------------------------------------- C18
@executor("part")
def x_part(p):
    from robotools.worklists.utils import partition_by_column

    tr = p["triples"]  # [[sr, sc], [dr, dc], v]
    srcs = [wid(*t[0]) for t in tr]
    dsts = [wid(*t[1]) for t in tr]
    vols = [float(t[2]) for t in tr]
    exc, groups = None, []
    try:
        res = partition_by_column(srcs, dsts, vols, p["mode"])
        for g in res:
            ss, dd, vv = g
            if not (len(ss) == len(dd) == len(vv)):
                groups.append([[[-1, -1], [-1, -1], -1]])
                continue
            groups.append([[_parse_wid(str(s)), _parse_wid(str(d)), _intv(v)] for s, d, v in zip(ss, dd, vv)])
    except Exception as e:  # noqa
        exc = e
    return {"fn": "part", "id": f"{p['mode']} n={len(tr)} {p.get('tag', '')}", "mode": p["mode"],
            "x": [{"s": t[0], "d": t[1], "v": int(t[2])} for t in tr], "out": outcome_class(exc),
            "groups": [[{"s": t[0], "d": t[1], "v": t[2]} for t in g] for g in groups]}


def _parse_wid(s):
    import re

    m = re.match(r"^([A-Z])(\d+)$", s)
    if not m:
        return [-1, -1]
    return [LETTERS.index(m.group(1)), int(m.group(2)) - 1]


def _intv(v):
    try:
        f = float(v)
        return int(f) if f == int(f) and abs(f) < 2**31 else -1
    except Exception:
        return -1


@executor("optpart")
def x_optpart(p):
    from robotools.worklists.utils import optimize_partition_by

    rt = robotools()

    rows, cols = p.get("rows", 4), p.get("cols", 2)
    drows = p.get("drows", rows)

    def mk(trough, name):
        # a trough is a trough whatever its number of virtual rows (also one); a plate is a plate also with a single row
        rr = drows if name == "d" else rows
        if trough:
            return rt.Trough(name, rr, cols, min_volume=0, max_volume=10)
        return rt.Labware(name, rr, cols, min_volume=0, max_volume=10)

    exc, res = None, ""
    try:
        res = optimize_partition_by(mk(p["st"], "s"), mk(p["dt"], "d"), p["mode"], p.get("label"))
    except Exception as e:  # noqa
        exc = e
    return {"fn": "optpart", "id": f"{p['st']}/{p['dt']}/{p['mode']} {rows}x{cols}" + (f"->{drows}" if drows != rows else ""), "st": bool(p["st"]), "dt": bool(p["dt"]), "mode": p["mode"],
            "out": outcome_class(exc), "res": res if isinstance(res, str) else "?"}


# ----------------------------------------------------------------------------- C15
def _arr_to_shape(a):
    """numpy result -> logged shape argument of [r, c] wells (ids parsed by the Tecan convention)."""
    a = np.asarray(a)
    if a.ndim == 0:
        return {"k": "s", "x": _parse_wid(str(a))}
    if a.ndim == 1:
        return {"k": "l", "x": [_parse_wid(str(x)) for x in a]}
    if a.ndim == 2:
        return {"k": "m", "x": [[_parse_wid(str(x)) for x in row] for row in a]}
    return {"k": "?", "x": []}


NOSHAPE = {"k": "none", "x": []}


def _wells_arg(a, present):
    conv = lambda w: wid(*w)
    v = shape_arg(a, conv, present)
    return v


def _another_user_of_the_format(rt, shape):
    """Somebody else in the process asked the public helpers for the well table and the index map of the same plate format
    and edited what it got (blanked wells of a layout, popped entries): these are the caller's own objects."""
    try:
        arr = rt.make_well_array(int(shape[0]), int(shape[1]))
        arr[...] = "X00"
        d = rt.make_well_index_dict(int(shape[0]), int(shape[1]))
        d.clear()
    except Exception:  # noqa (formats the helpers refuse are refused by the transforms, too)
        pass


@executor("shift")
def x_shift(p):
    rt = robotools()
    _another_user_of_the_format(rt, p["A"])
    _another_user_of_the_format(rt, p["B"])
    exc0, exc, exc2 = None, None, None
    shifted, unshifted, shifted2, argafter = NOSHAPE, NOSHAPE, NOSHAPE, NOSHAPE
    try:
        sh = rt.WellShifter(tuple(p["A"]), tuple(p["B"]), wid(*p["anchor"]))
    except Exception as e:  # noqa
        exc0 = e
    if exc0 is None:
        if p.get("own"):
            # the object has been used before, on its own table of source wells (a caller shifting "the whole plate")
            try:
                got = sh.shift(sh.wells_A)
                back = sh.unshift(got)
                got[...] = "Z99"      # ... and wrote into what it got back
                back[...] = "Z98"
            except Exception:  # noqa
                pass
        try:
            arg = _wells_arg(p["wells"], p.get("present", "list"))
            res = sh.shift(arg)
            shifted = _arr_to_shape(res)
            try:
                unshifted = _arr_to_shape(sh.unshift(res))
            except Exception as e:  # noqa
                exc2 = e
            # values are values: what was handed in and what came out are looked at again after the later call
            shifted2 = _arr_to_shape(res)
            argafter = _arr_to_shape(arg) if isinstance(arg, np.ndarray) else p["wells"]
        except Exception as e:  # noqa
            exc = e
    return {"fn": "shift", "id": f"A={p['A']} B={p['B']} anchor={p['anchor']} k={p['wells']['k']}" + (" used-before" if p.get("own") else ""),
            "A": p["A"], "B": p["B"],
            "anchor": p["anchor"], "wells": p["wells"], "ctor": outcome_class(exc0), "out": outcome_class(exc),
            "out2": outcome_class(exc2), "shifted": shifted, "unshifted": unshifted, "shifted2": shifted2, "argafter": argafter}


@executor("rot")
def x_rot(p):
    rt = robotools()
    sh = tuple(p["shape"])
    sw = (sh[1], sh[0])
    exc = None
    res = {"cw": NOSHAPE, "ccw": NOSHAPE, "cwccw": NOSHAPE, "ccwcw": NOSHAPE, "cw4": NOSHAPE, "cw2": NOSHAPE, "argafter": NOSHAPE}
    _another_user_of_the_format(rt, sh)
    _another_user_of_the_format(rt, sw)
    try:
        r1, r2 = rt.WellRotator(sh), rt.WellRotator(sw)
        if p.get("scribble"):
            # an earlier caller rotated the whole plate and then wrote into the arrays it got back
            whole = np.array([[wid(rr, cc) for cc in range(sh[1])] for rr in range(sh[0])])
            for rot, src in ((r1.rotate_cw, whole), (r1.rotate_ccw, whole)):
                try:
                    got = rot(src.copy())
                    got[...] = "Z99"
                except Exception:  # noqa
                    pass
        arg = _wells_arg(p["wells"], p.get("present", "list"))
        cw = r1.rotate_cw(arg)
        ccw = r1.rotate_ccw(arg)
        res["cw"] = _arr_to_shape(cw)
        res["ccw"] = _arr_to_shape(ccw)
        res["cwccw"] = _arr_to_shape(r2.rotate_ccw(cw))
        res["ccwcw"] = _arr_to_shape(r2.rotate_cw(ccw))
        res["cw4"] = _arr_to_shape(r2.rotate_cw(r1.rotate_cw(r2.rotate_cw(cw))))
        res["cw2"] = _arr_to_shape(cw)
        res["argafter"] = _arr_to_shape(arg) if isinstance(arg, np.ndarray) else p["wells"]
    except Exception as e:  # noqa
        exc = e
    rec = {"fn": "rot", "id": f"shape={p['shape']} k={p['wells']['k']}", "shape": p["shape"], "wells": p["wells"], "out": outcome_class(exc)}
    rec.update(res)
    return rec


@executor("rand")
def x_rand(p):
    rt = robotools()
    sh = tuple(p["shape"])
    exc = None
    tab1, tab2 = [], []
    res = {"rnd": NOSHAPE, "back": NOSHAPE, "rnd2": NOSHAPE, "argafter": NOSHAPE}
    _another_user_of_the_format(rt, sh)
    try:
        kw = {} if p["mode"] == "default" else {"mode": p["mode"]}
        r1 = rt.WellRandomizer(sh, p["seed"], **kw)
        r2 = rt.WellRandomizer(sh, p["seed"], **kw)
        # the assignment table, obtained through the public call only (every well of the plate, one by one and at once)
        allw = [wid(rr, cc) for rr in range(sh[0]) for cc in range(sh[1])]
        tab1 = [[_parse_wid(w), _parse_wid(str(v))] for w, v in zip(allw, np.asarray(r1.randomize_wells(allw)).flatten())]
        # (the second randomizer is asked well by well and in the opposite order: the assignment depends on the seed alone,
        #  not on when or in which order it is looked at)
        tab2 = [[_parse_wid(w), _parse_wid(str(r2.randomize_wells(w)))] for w in reversed(allw)]
        if p.get("scribble"):
            try:
                whole = np.array([[wid(rr, cc) for cc in range(sh[1])] for rr in range(sh[0])])
                got = r1.randomize_wells(whole)
                got2 = r2.derandomize_wells(got.copy())
                got[...] = "Z99"
                got2[...] = "Z98"
            except Exception:  # noqa
                pass
        arg = _wells_arg(p["wells"], p.get("present", "list"))
        rnd = r1.randomize_wells(arg)
        res["rnd"] = _arr_to_shape(rnd)
        res["back"] = _arr_to_shape(r2.derandomize_wells(rnd))
        res["rnd2"] = _arr_to_shape(rnd)
        res["argafter"] = _arr_to_shape(arg) if isinstance(arg, np.ndarray) else p["wells"]
    except Exception as e:  # noqa
        exc = e
    rec = {"fn": "rand", "id": f"shape={p['shape']} seed={p['seed']} mode={p['mode']} k={p['wells']['k']}", "shape": p["shape"],
           "mode": "full" if p["mode"] == "default" else p["mode"], "seed": p["seed"], "wells": p["wells"], "out": outcome_class(exc),
           "tab1": sorted(tab1), "tab2": sorted(tab2)}
    rec.update(res)
    return rec


# ----------------------------------------------------------------------------- C20
def _size_value(s):
    """size spec {"cls": "int"|"float", "v": n}: an int n, or the non-integer n + 0.5"""
    return s["v"] if s["cls"] == "int" else s["v"] + 0.5


def _lim_value(s):
    if s["cls"] == "none":
        return None
    if s["cls"] == "nan":
        return float("nan")
    return float(s["v"]) if s.get("asfloat") else s["v"]


def _vol_value(v, isnan):
    return float("nan") if isnan else float(v)


@executor("ctor")
def x_ctor(p):
    from .twin import proj_comp, proj_entry, to_units
    from fractions import Fraction

    rt = robotools()
    # all volumes and limits of the case are multiples of this unit (microlitres); tiny units reach volumes far below 1e-8
    one = Fraction(*p.get("scale", [1, 1]))
    kind = p["kind"]
    rows, cols, vrows = p["rows"], p["cols"], p["vrows"]
    init = p["init"]
    form = init["form"]
    vals, nans = init.get("vals", []), init.get("nan", [])

    def val(i):
        v = _vol_value(vals[i], nans[i] if i < len(nans) else False)
        return v if one == 1 or v != v else float(Fraction(vals[i]) * one)

    def lim(sp):
        v = _lim_value(sp)
        return v if one == 1 or v is None or v != v else float(Fraction(sp["v"]) * one)

    if form == "none":
        iv = None
    elif form == "scalar":
        iv = val(0)
        if init.get("asint") and not (nans and nans[0]) and one == 1:
            iv = int(vals[0])
    elif form in ("flat", "percol"):
        iv = [val(i) for i in range(len(vals))]
        if init.get("nd"):
            iv = np.array(iv)
    else:  # 2d: vals is row-major with ncols2 columns
        nc = init["ncols"]
        iv = [[val(r * nc + c) for c in range(nc)] for r in range(len(vals) // nc)]
        if init.get("nd", True):
            iv = np.array(iv)
            if init.get("order") == "F":
                iv = np.asfortranarray(iv)       # same table, column-major memory layout
            elif init.get("order") == "T":
                iv = np.array(iv.T.tolist()).T   # a transposed view of a per-column table
    names = p.get("names")
    if names is not None and kind != "trough":
        fixed = []
        for w, n in names["wells"]:
            if isinstance(n, str) and n.startswith("@default@"):
                rr, cc = (int(t) for t in n[len("@default@"):].split(","))
                n = f"{p.get('name', 'L')}.{wid(rr, cc)}"
            fixed.append([w, n])
        names = dict(names, wells=fixed)
    exc, obj = None, None
    try:
        if kind == "trough":
            kw = {}
            if iv is not None:
                kw["initial_volumes"] = iv
            if names is not None:
                cnames = names["list"] if names["kind"] == "list" else names["str"]
                if names["kind"] == "list" and names.get("present") == "tuple":
                    cnames = tuple(cnames)
                elif names["kind"] == "list" and names.get("present") == "ndarray":
                    cnames = np.array(cnames, dtype=object)
                kw["column_names"] = cnames
            obj = rt.Trough(p.get("name", "L"), _size_value(vrows), _size_value(cols), min_volume=lim(p["minv"]),
                            max_volume=lim(p["maxv"]), **kw)
        else:
            kw = {}
            if iv is not None:
                kw["initial_volumes"] = iv
            if vrows["given"]:
                kw["virtual_rows"] = _size_value(vrows)
            if names is not None:
                kw["component_names"] = {wid(*w): n for w, n in names["wells"]}
                if p.get("reuse_names"):
                    # the caller uses one dict of names for several labware: an earlier constructor call must not leave traces in it
                    try:
                        rt.Labware("earlier", _size_value(rows), _size_value(cols), min_volume=lim(p["minv"]),
                                   max_volume=lim(p["maxv"]), **kw)
                    except Exception:  # noqa
                        pass
            obj = rt.Labware(p.get("name", "L"), _size_value(rows), _size_value(cols), min_volume=lim(p["minv"]),
                             max_volume=lim(p["maxv"]), **kw)
    except Exception as e:  # noqa
        exc = e
    obs = {"wells": [], "idx": [], "nidx": 0, "volshape": [0, 0], "vol": [], "hn": 0, "last": {"h": False, "l": "", "s": [], "base": False, "num": -1},
           "comp": [], "minv": -1, "maxv": -1, "shape": [0, 0], "trough": False, "finite": False}
    if obj is not None:
        try:
            idrows, ncols = obj.wells.shape
            idx = []
            for r in range(idrows):
                for c in range(ncols):
                    t = obj.indices.get(wid(r, c), (-1, -1)) if r < 26 else (-1, -1)
                    idx.append([_int(t[0]), _int(t[1])])
            hist = obj.history
            comp, _ = proj_comp(obj)
            obs = {
                "wells": [[str(x) for x in row] for row in obj.wells.tolist()],
                "idx": idx,
                "nidx": len(obj.indices),
                "volshape": [int(x) for x in obj.volumes.shape],
                "vol": [to_units(v, one) for v in obj.volumes.flatten("F")],
                "hn": len(hist),
                "last": proj_entry(hist[-1][0], hist[-1][1], one) if hist else obs["last"],
                "comp": comp,
                "minv": to_units(obj.min_volume, one),
                "maxv": to_units(obj.max_volume, one),
                "shape": [int(x) for x in obj.shape],
                "trough": bool(obj.is_trough),
                "finite": bool(np.all(np.isfinite(obj.volumes))),
            }
        except Exception as e:  # noqa
            exc = e
    lognames = {"given": names is not None, "wells": [], "list": [], "isstr": False, "str": ""}
    if names is not None:
        if kind == "trough":
            if names["kind"] == "list":
                lognames["list"] = [{"h": n is not None, "l": n or ""} for n in names["list"]]
            else:
                lognames["isstr"] = True
                lognames["str"] = names["str"]
        else:
            lognames["wells"] = [{"w": list(w), "h": n is not None, "l": n or ""} for w, n in names["wells"]]
    return {
        "fn": "ctor",
        "id": p.get("tag", "") + f" {kind} rows={rows} cols={cols} vrows={vrows} init={form}",
        "kind": kind,
        "name": p.get("name", "L"),
        "rows": rows,
        "cols": cols,
        "vrows": vrows,
        "minv": {"cls": p["minv"]["cls"], "v": p["minv"].get("v", 0)},
        "maxv": {"cls": p["maxv"]["cls"], "v": p["maxv"].get("v", 0)},
        "init": {"form": form, "vals": list(vals), "nan": [bool(x) for x in nans] + [False] * (len(vals) - len(nans)), "ncols": init.get("ncols", 0)},
        "names": lognames,
        "out": outcome_class(exc),
        "obs": obs,
    }


# ----------------------------------------------------------------------------- C14
def plan_params_python(p):
    vmax = p["vmax"]
    present = p.get("vmax_present", "int")
    if len(vmax) == 1 and p.get("scalar_vmax", True):
        v = float(vmax[0]) if present in ("float", "ndarray") else vmax[0]
    elif present == "float":
        v = [float(x) for x in vmax]
    elif present == "ndarray":
        v = np.array(vmax, dtype=float)     # the caller's own table (it must come back unchanged)
    else:
        v = list(vmax)
    return dict(xmin=p["xmin"][0] / p["xmin"][1], xmax=p["xmax"][0] / p["xmax"][1], R=p["R"], C=p["C"],
                stock=p["stock"][0] / p["stock"][1], mode=p["mode"], vmax=v, min_transfer=p["mint10"] / 10)


def project_plan(plan, p):
    """Project a DilutionPlan object: instructions as whole microlitres, concentrations as rationals."""
    from fractions import Fraction

    R, C = p["R"], p["C"]
    instr = []
    for (c, dsteps, src, v) in plan.instructions:
        vs, whole = [], True
        for x in np.asarray(v, dtype=float).flatten():
            if float(x).is_integer() and abs(x) < 2**31:
                vs.append(int(x))
            else:
                vs.append(-1)
                whole = False
        instr.append({"col": int(c) + 1, "src": 0 if isinstance(src, str) else int(src) + 1, "v": vs, "whole": whole, "dsteps": int(dsteps)})
    x = np.asarray(plan.x, dtype=float)
    xs, supported = [], x.shape == (R, C)
    if supported:
        for r in range(R):
            row = []
            for c in range(C):
                fr = Fraction(float(x[r, c])).limit_denominator(10**6)
                if abs(float(fr) - float(x[r, c])) > 1e-12 * max(1.0, abs(float(x[r, c]))):
                    supported = False
                row.append([fr.numerator, fr.denominator])
            xs.append(row)
    def whole(v):
        f = float(v)
        return int(f) if f.is_integer() and abs(f) < 2**31 else -1
    # the reported range is the range of the reported concentrations (the very same floats: compared here, literally)
    try:
        rangeok = bool(float(plan.xmin) == float(np.min(x)) and float(plan.xmax) == float(np.max(x)))
    except Exception:  # noqa
        rangeok = False
    return {"instr": instr, "x": xs, "xsup": bool(supported), "rangeok": rangeok, "vstock": whole(plan.v_stock), "vdiluent": whole(plan.v_diluent),
            "vmaxobs": [whole(v) for v in np.asarray(plan.vmax).flatten()], "Robs": int(plan.R), "Cobs": int(plan.C)}


@executor("dilplan")
def x_dilplan(p):
    rt = robotools()
    exc, proj = None, {"instr": [], "x": [], "xsup": False, "rangeok": False, "vstock": -1, "vdiluent": -1, "vmaxobs": [], "Robs": 0, "Cobs": 0}
    kept = True
    try:
        kw = plan_params_python(p)
        plan = rt.DilutionPlan(**kw)
        proj = project_plan(plan, p)
        if isinstance(kw["vmax"], (list, np.ndarray)):
            kept = [float(x) for x in kw["vmax"]] == [float(x) for x in p["vmax"]]
    except Exception as e:  # noqa
        exc = e
    vmax = p["vmax"] if len(p["vmax"]) == p["C"] else [p["vmax"][0]] * p["C"]
    rec = {"fn": "dilplan", "vmaxkept": bool(kept), "id": f"R={p['R']} C={p['C']} {p['mode']} stock={p['stock']} xmax={p['xmax']} xmin={p['xmin']} vmax={p['vmax']} mint10={p['mint10']}",
           "R": p["R"], "C": p["C"], "stock": p["stock"], "vmax": vmax, "mint10": p["mint10"], "out": outcome_class(exc),
           "small": max(vmax) <= 50}
    rec.update(proj)
    return rec


# ----------------------------------------------------------------------------- C05: combine_composition
@executor("combine")
def x_combine(p):
    from fractions import Fraction

    from robotools.liquidhandling.composition import combine_composition
    from .twin import proj_frac

    def py(c):
        return None if c is None else {nm: n / d for nm, (n, d) in c.items()}

    def log(c):
        return [[nm, n, d] for nm, (n, d) in sorted(c.items())] if c is not None else []

    exc, res, isnone = None, [], False
    try:
        out = combine_composition(p["va"], py(p["a"]), p["vb"], py(p["b"]))
        if out is None:
            isnone = True
        else:
            for nm in sorted(out):
                n, d = proj_frac(out[nm])
                if n != 0:
                    res.append([str(nm), n, d])
    except Exception as e:  # noqa
        exc = e
    return {"fn": "combine", "id": f"va={p['va']} vb={p['vb']} a={p['a']} b={p['b']}", "va": p["va"], "vb": p["vb"],
            "aknown": p["a"] is not None, "bknown": p["b"] is not None, "a": log(p["a"]), "b": log(p["b"]),
            "out": outcome_class(exc), "isnone": isnone, "res": res}


# ----------------------------------------------------------------------------- C02 on raw floats
@executor("rawlimit")
def x_rawlimit(p):
    """Decimal limits and volumes (tenths of a microlitre): whatever the limit checks decide for values that land on a limit
    "in decimal terms", the float that ends up stored must not lie beyond the float limit in the direction of the change.
    The comparison is the literal one of the property and is made here on the raw floats (the exact-grid abstraction of the
    other checks cannot see one unit in the last place)."""
    from decimal import Decimal

    rt = robotools()
    d = lambda k: float(Decimal(k) / Decimal(10))
    mn, mx = d(p["min"]), d(p["max"])
    init = [d(k) for k in p["init"]]
    n = len(init)
    if p.get("init_dtype"):
        # the caller's table of initial volumes has a narrower floating point type
        init = np.array(init, dtype=getattr(np, p["init_dtype"]))
    steps = []
    viol_up = viol_down = False
    try:
        if p.get("init_dtype"):
            # (values of a narrow table may lie a rounding step beyond the decimal limits: widen the limits to hold them)
            mn, mx = min(mn, float(np.min(init))), max(mx, float(np.max(init)))
        lw = rt.Labware("L", 1, n, min_volume=mn, max_volume=mx, initial_volumes=init) if p["kind"] == "plate" else \
            rt.Trough("L", 4, n, min_volume=mn, max_volume=mx, initial_volumes=init)
        wl = rt.EvoWorklist(max_volume=10**6) if p.get("via") == "worklist" else None
        for st in p["steps"]:
            before = np.array(lw.volumes, dtype=np.float64)   # exact widening: the comparison below is made on Python floats
            well = wid(0, st["col"])
            x = d(st["amount"])
            if "first" in st:
                # the same real well twice in one call (for a trough: two of its virtual rows)
                well = [wid(0, st["col"]), wid(1 if p["kind"] != "plate" else 0, st["col"])]
                x = [d(st["first"]), d(st["amount"] - st["first"])]
            exc = None
            try:
                if st["op"] == "add":
                    wl.dispense(lw, well, x) if wl is not None else lw.add(well, x)
                else:
                    wl.aspirate(lw, well, x) if wl is not None else lw.remove(well, x)
            except Exception as e:  # noqa
                exc = e
            after = np.array(lw.volumes, dtype=np.float64)
            up = bool(np.any((after > before) & (after > mx)))
            down = bool(np.any((after < before) & (after < mn)))
            viol_up, viol_down = viol_up or up, viol_down or down
            steps.append({"out": outcome_class(exc), "up": up, "down": down})
        out = "ok"
    except Exception as e:  # noqa
        out = outcome_class(e)
    return {"fn": "rawlimit", "id": f"{p['kind']} min={p['min']} max={p['max']} init={p['init']} steps={[(s['op'], s['col'], s['amount'], s.get('first', '')) for s in p['steps']]}",
            "out": out, "nsteps": len(p["steps"]), "steps": steps, "above": viol_up, "below": viol_down}


@executor("rawsplit")
def x_rawsplit(p):
    """partition_volume for volumes a hair above / below a multiple of max_volume (relative offsets of 1e-12 .. 1e-6, far above
    one unit in the last place, far below anything the exact grid of the other checks can express).  The literal statements of
    C06 are evaluated here on the raw floats in exact rational arithmetic: number of steps = ceil(v / M), every step positive
    and <= M, the steps add up to v."""
    import math
    from fractions import Fraction as Fr

    from robotools.worklists.utils import partition_volume

    M = p["m"][0] / p["m"][1]
    v = p["k"] * M * (1.0 + p["sign"] * 10.0 ** p["exp"])
    exc, steps = None, []
    try:
        steps = [float(s) for s in partition_volume(v, max_volume=(int(M) if p.get("mint") and float(M).is_integer() else M))]
    except Exception as e:  # noqa
        exc = e
    want = math.ceil(Fr(v) / Fr(M))
    return {"fn": "rawsplit", "id": f"M={M} k={p['k']} {'+' if p['sign'] > 0 else '-'}1e{p['exp']}", "out": outcome_class(exc),
            "count": len(steps) == want, "bounded": all(0 < s <= M for s in steps),
            "sum": bool(steps) and abs(math.fsum(steps) - v) <= 1e-9 * v, "n": len(steps), "want": int(want)}


# ----------------------------------------------------------------------------- C08 across object life times
@executor("poslife")
def x_poslife(p):
    """One worklist, many short-lived labware of different geometries (created, used once, dropped): the emitted position
    depends on the geometry of the labware in hand only (nothing may be remembered under the identity of a dead object)."""
    import gc

    rt = robotools()
    cls = rt.EvoWorklist if p["dev"] == "evo" else rt.FluentWorklist
    wl = cls(max_volume=1000)
    out = []
    exc = None
    try:
        for g in p["geoms"]:
            R, C, V, w = g["rows"], g["cols"], g["vrows"], g["well"]
            lw = rt.Trough("L", V, C, min_volume=0, max_volume=1000, initial_volumes=500) if V else \
                rt.Labware("L", R, C, min_volume=0, max_volume=1000, initial_volumes=500)
            n0 = len(wl)
            wl.aspirate(lw, wid(*w), 1)
            recs = [r for r in list(wl)[n0:] if r.startswith("A;")]
            pos = int(recs[0].split(";")[4]) if len(recs) == 1 else -1
            out.append({"rows": R, "cols": C, "vrows": V, "well": list(w), "pos": pos})
            del lw
            gc.collect()
    except Exception as e:  # noqa
        exc = e
    return {"fn": "poslife", "id": f"{p['dev']} {len(p['geoms'])} labware", "dev": p["dev"], "out": outcome_class(exc), "n": len(p["geoms"]), "seen": out}
