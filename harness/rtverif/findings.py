"""Known findings: genuine defects of robotools that are recorded instead of repaired.

File format (/verif/known-findings.txt), one entry per line:
  known: property=<id> clause=<clause> sig=<regular expression on the signature> :: <what fails>
  fixed: property=<id> <commit> <what failed>          (informational, suppresses nothing)
The file is read only; nothing is ever added at run time.
"""
import os
import re

from .common import VERIF

PATH = os.path.join(VERIF, "known-findings.txt")
_RE = re.compile(r"^known:\s+property=(\S+)\s+clause=(\S+)\s+sig=(.*?)\s+::\s+(.*)$")


def load(path=PATH):
    db = []
    if not os.path.exists(path):
        return db
    with open(path) as f:
        for line in f:
            line = line.rstrip("\n")
            m = _RE.match(line)
            if m:
                db.append(
                    {
                        "property": m.group(1),
                        "clause": m.group(2),
                        "sig": m.group(3),
                        "text": m.group(4),
                        "key": f"clause={m.group(2)} sig={m.group(3)}",
                    }
                )
    return db


def match(db, pid, clause, sig):
    for k in db:
        if k["property"] == pid and k["clause"] == clause and re.fullmatch(k["sig"], sig or ""):
            return k
    return None
