"""Shared plumbing: locations, seeds, importing robotools from the tree under test."""
import logging
import os
import random
import sys
import warnings

VERIF = os.path.dirname(os.path.dirname(os.path.dirname(os.path.abspath(__file__))))
SPEC = os.path.join(VERIF, "spec")
REPO = os.environ.get("VERIF_REPO", "/repo")


def seed() -> int:
    try:
        return int(os.environ.get("VERIF_SEED", "0"))
    except ValueError:
        return 0


def rng(*salt) -> random.Random:
    """Deterministic generator derived from VERIF_SEED and a salt (no wall-clock randomness)."""
    return random.Random("|".join([str(seed())] + [str(s) for s in salt]))


_imported = None


def robotools():
    """Import robotools from the tree under test (REPO), silencing its logging and warnings."""
    global _imported
    if _imported is None:
        if REPO not in sys.path:
            sys.path.insert(0, REPO)
        sys.dont_write_bytecode = True
        logging.disable(logging.CRITICAL)
        warnings.simplefilter("ignore")
        import robotools as rt  # noqa

        where = os.path.realpath(os.path.dirname(os.path.dirname(rt.__file__)))
        if where != os.path.realpath(REPO):
            raise RuntimeError(f"robotools imported from {where}, expected {REPO}")
        _imported = rt
    return _imported


def outcome_class(exc) -> str:
    """Outcome classes of DESIGN section 3."""
    if exc is None:
        return "ok"
    rt = robotools()
    if isinstance(exc, rt.VolumeOverflowError):
        return "overflow"
    if isinstance(exc, rt.VolumeUnderflowError):
        return "underflow"
    if isinstance(exc, rt.InvalidOperationError):
        return "invalidop"
    if isinstance(exc, rt.CompatibilityError):
        return "compat"
    if isinstance(exc, ValueError):
        return "value"
    return "other:" + type(exc).__name__
