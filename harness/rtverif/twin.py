"""Run abstract programs on the real robotools and project what happened for Trace_Twin.

The projection (alpha) is the trusted part: volumes -> integer multiples of the trace's unit,
float fractions -> small rationals, records -> decoded fields (lexer).  No expected result is ever
computed here; the specification judges the logged steps.
"""
import math
import os
import shutil
import tempfile
from fractions import Fraction

import numpy as np

from . import lexer
from .calls import LETTERS, wid
from .common import outcome_class, robotools

SENT = -999999
BIG = 2**30
NAN = -888888  # abstract "not a number" volume: logged as this negative integer, handed to the code as float("nan")
DEN_LIMIT = 5000
LCM_LIMIT = 10**6


# ----------------------------------------------------------------------------- alpha
SNAP = False  # set for traces of observed library code whose own float arithmetic leaves the grid by an ulp


def to_units(x, unit):
    """Observed float volume -> integer number of units (sentinel if not on the grid)."""
    try:
        xf = float(x)
    except Exception:
        return SENT
    if not math.isfinite(xf):
        return SENT
    q = Fraction(xf) / unit
    if SNAP and q.denominator != 1:
        n = round(q)
        if abs(q - n) < Fraction(1, 10**6):
            q = Fraction(n)
    if q.denominator != 1 or abs(q.numerator) >= 2**31 - 1:
        return SENT
    return int(q.numerator)


def flat_f(arr):
    return np.asarray(arr).flatten("F")


def proj_vol(lw, unit):
    return [to_units(v, unit) for v in flat_f(lw.volumes)]


def proj_frac(f):
    try:
        ff = float(f)
    except Exception:
        return (-1, 1)
    if not math.isfinite(ff):
        return (-1, 1)
    fr = Fraction(ff).limit_denominator(DEN_LIMIT)
    if abs(float(fr) - ff) > 1e-9:
        return (-2, 1)
    return (fr.numerator, fr.denominator)


def proj_comp(lw):
    """Per real well (column-major) the list of [name, num, den] with a non-zero fraction.
    Returns (comp, supported): supported is False when the denominators of a well get too large
    for TLC's 32 bit arithmetic."""
    comp = lw.composition
    # total on garbage: a component "name" that is not a string (None, a number) is logged as its repr in angle brackets
    label = {nm: (nm if isinstance(nm, str) else f"<{type(nm).__name__} {nm!r}>") for nm in comp.keys()}
    names = sorted(comp.keys(), key=lambda nm: label[nm])
    shape = lw.volumes.shape
    out, supported = [], True
    for c in range(shape[1]):
        for r in range(shape[0]):
            entries, l = [], 1
            for nm in names:
                try:
                    f = comp[nm][r, c]
                except Exception:
                    entries.append([label[nm], -3, 1])
                    continue
                if f == 0:
                    continue
                n, d = proj_frac(f)
                if n > 0:
                    l = l * d // math.gcd(l, d)
                elif n == -2:
                    # not a fraction with denominator <= DEN_LIMIT. A genuine mixture whose exact denominator is
                    # moderately larger (legitimate, but outside TLC's 32 bit range) is "unsupported", not wrong:
                    # it is matched very tightly by a fraction with denominator <= 200000, which an arbitrary
                    # (wrong) real number is not (probability about 1 %).
                    fr = Fraction(float(f)).limit_denominator(200000)
                    if abs(float(fr) - float(f)) <= 1e-13:
                        supported = False
                entries.append([label[nm], n, d])
            if l > LCM_LIMIT:
                supported = False
            out.append(entries)
    return out, supported


def proj_wellview(lw):
    """The same projection as proj_comp, taken through the per-well query Labware.get_well_composition (real wells,
    column-major). None when a fraction is not a finite non-negative number (the two views are then not comparable)."""
    comp = lw.composition
    shape = lw.volumes.shape
    for arr in comp.values():
        a = np.asarray(arr, dtype=float)
        if not np.all(np.isfinite(a)) or np.any(a < 0):
            return None
    out = []
    for c in range(shape[1]):
        for r in range(shape[0]):
            wc = lw.get_well_composition(str(lw.wells[r, c]))
            label = {nm: (nm if isinstance(nm, str) else f"<{type(nm).__name__} {nm!r}>") for nm in wc.keys()}
            entries = []
            for nm in sorted(wc.keys(), key=lambda nm: label[nm]):
                if wc[nm] == 0:
                    continue  # a component reported with fraction 0 is as good as one that is not listed
                n, d = proj_frac(wc[nm])
                entries.append([label[nm], n, d])
            out.append(entries)
    return out


def proj_entry(label, arr, unit, oplabel=None):
    h = label is not None
    ls = label if isinstance(label, str) else ("" if label is None else str(label))
    e = {"h": h, "l": ls, "s": [to_units(v, unit) for v in flat_f(arr)], "base": False, "num": -1}
    # large volume note: the part of the label after the operation's own label and the first integer in it
    base = oplabel if isinstance(oplabel, str) else ""
    if ls.startswith(base):
        e["base"] = True
        rest = ls[len(base):]
        import re

        m = re.search(r"-?\d+", rest)
        if m:
            v = int(m.group(0))
            e["num"] = v if abs(v) < 2**31 else -1
    return e


def lex_report(report, name, unit):
    """Labware.report -> list of [h, l, s]: optional label line followed by the printed (rounded) array."""
    import re

    lines = report.split("\n")
    ok = bool(lines) and lines[0] == name
    blocks, cur_label, cur_arr, depth = [], None, [], 0
    for ln in lines[1:]:
        if depth == 0 and not ln.strip():
            continue
        opens, closes = ln.count("["), ln.count("]")
        if depth == 0 and opens == 0:
            cur_label = ln if cur_label is None else cur_label + "\n" + ln
            continue
        cur_arr.append(ln)
        depth += opens - closes
        if depth == 0:
            nums = re.findall(r"-?(?:\d+\.?\d*|\.\d+)(?:[eE][+-]?\d+)?|nan|inf", " ".join(cur_arr))
            vals = []
            for t in nums:
                try:
                    vals.append(float(t))
                except ValueError:
                    vals.append(float("nan"))
            blocks.append({"h": cur_label is not None, "l": cur_label or "", "rowmajor": [to_units(v, unit) for v in vals]})
            cur_label, cur_arr = None, []
    return {"ok": ok and depth == 0 and cur_label is None, "blocks": blocks}


def text_arg(v):
    if isinstance(v, str):
        return {"s": v, "len": len(v), "sep": ";" in v, "isstr": True}
    return {"s": "", "len": 0, "sep": False, "isstr": False}


def label_arg(label):
    if label is None:
        return {"h": False, "l": "", "lines": []}
    lines = [ln.strip() for ln in label.split("\n")]
    return {"h": True, "l": label, "lines": lines if label else []}


# tip symbols: ["int", n] | ["tip", n] | ["any"] | ["bad", kind]
def tip_value(sym):
    rt = robotools()
    k = sym[0]
    if k == "int":
        return int(sym[1])
    if k == "tip":
        return [rt.Tip.T1, rt.Tip.T2, rt.Tip.T3, rt.Tip.T4, rt.Tip.T5, rt.Tip.T6, rt.Tip.T7, rt.Tip.T8][sym[1] - 1]
    if k == "any":
        return rt.Tip.Any
    if sym[1] == "float":
        return 1.5
    if sym[1] == "str":
        return "1"
    return None


def tip_sym_log(sym):
    k = sym[0]
    return {"k": k, "v": int(sym[1]) if k in ("int", "tip") else 0}


def tip_arg_value(t):
    if t["k"] == "one":
        return tip_value(t["s"])
    vals = [tip_value(s) for s in t["x"]]
    present = t.get("present")
    if present == "tuple":
        return tuple(vals)
    if present == "iter":
        return (v for v in vals)  # a one-shot iterable (generator, map, reversed, ...)
    if present == "set" and len({s[0] for s in t["x"]}) == 1:
        # only numbers or only Tip members: Python itself merges the number 4 with Tip.T3 (value 4) in a mixed set
        try:
            fresh = set(vals)
        except TypeError:
            return vals
        # the caller's one set object, emptied and refilled between the calls (a caller may keep and edit its containers)
        _TIP_SET.clear()
        _TIP_SET.update(fresh)
        return _TIP_SET
    # likewise the caller's one list object, edited in place between the calls
    _TIP_LIST[:] = vals
    return _TIP_LIST


_TIP_LIST = []
_TIP_SET = set()


def tip_arg_log(t):
    if t["k"] == "one":
        return {"k": "one", "s": tip_sym_log(t["s"]), "x": []}
    return {"k": "coll", "s": {"k": "any", "v": 0}, "x": [tip_sym_log(s) for s in t["x"]]}


DEFAULT_TIP = {"k": "one", "s": ["any"]}
KW_FIELDS = {"lc": "liquid_class", "rackid": "rack_id", "racktype": "rack_type", "tube": "tube_id", "frt": "forced_rack_type"}


def kw_python(kw):
    out = {}
    for k, pyname in KW_FIELDS.items():
        if k in kw:
            out[pyname] = kw[k]
    if "tip" in kw:
        out["tip"] = tip_arg_value(kw["tip"])
    return out


def kw_log(kw):
    d = {k: text_arg(kw.get(k, "")) for k in KW_FIELDS}
    d["tip"] = tip_arg_log(kw.get("tip", DEFAULT_TIP))
    return d


# ----------------------------------------------------------------------------- arguments
def vol_float(k, unit):
    """k units as the float handed to robotools (exact for the units the drivers use)."""
    if k == NAN:
        return float("nan")
    if k >= BIG:
        # the abstract volume "exceeds every limit": infinity, or a huge finite value
        return float("inf") if k == BIG else 1e300
    return float(Fraction(k) * unit)


def _wid(w):
    """[r, c] -> id; a string is a raw (possibly malformed) id passed through unchanged"""
    if isinstance(w, str):
        return w
    r, c = w
    if 0 <= r < 26:
        return wid(r, c)
    return "[" + f"{c + 1:02d}"  # a row beyond Z


def shape_wells(a, present):
    """Shape argument of [r, c] wells -> python value of well ids."""
    if a["k"] == "s":
        return _wid(a["x"])
    if a["k"] == "l":
        v = [_wid(w) for w in a["x"]]
        if present == "ndarray":
            return np.array(v)
        if present == "tuple":
            return tuple(v)
        return v
    v = [[_wid(w) for w in row] for row in a["x"]]
    if present == "fortran":
        return np.asfortranarray(np.array(v))
    return np.array(v) if present != "list" else v


def shape_vols(a, unit, present, numkind="float"):
    def one(k):
        f = vol_float(k, unit)
        if numkind == "int" and float(f).is_integer() and abs(f) < 2**53:
            return int(f)
        if numkind == "np":
            return np.float64(f)
        if numkind == "npint" and float(f).is_integer() and abs(f) < 2**53:
            return np.int64(f)
        if numkind == "npuint" and float(f).is_integer() and 0 <= f < 2**16:
            return np.uint16(f)  # an unsigned table column
        return f

    def arr(v):
        # integer volumes handed over as an integer array (a table read with dtype=int)
        flat = np.array(v, dtype=float)
        if numkind == "npuint" and flat.size and np.all(np.isfinite(flat)) and np.all(flat == np.floor(flat)) and np.all(flat >= 0) and np.all(flat < 2**16):
            return np.array(v, dtype=np.uint16)
        if numkind in ("int", "npint") and flat.size and np.all(np.isfinite(flat)) and np.all(flat == np.floor(flat)) and np.all(np.abs(flat) < 2**53):
            return np.array(v, dtype=np.int64)
        return flat

    if a["k"] == "s":
        return one(a["x"])
    if a["k"] == "l":
        v = [one(k) for k in a["x"]]
        if present == "ndarray":
            return arr(v)
        if present == "tuple":
            return tuple(v)
        return v
    v = [[one(k) for k in row] for row in a["x"]]
    if present == "fortran":
        return np.asfortranarray(arr(v))
    return arr(v) if present != "list" else v


def log_wells(a):
    """raw id strings are logged as the invalid well [-1, -1]"""
    bad = lambda w: [-1, -1] if isinstance(w, str) else list(w)
    if a["k"] == "s":
        return {"k": "s", "x": bad(a["x"])}
    if a["k"] == "l":
        return {"k": "l", "x": [bad(w) for w in a["x"]]}
    return {"k": "m", "x": [[bad(w) for w in row] for row in a["x"]]}


def log_vols(a):
    return {"k": a["k"], "x": a["x"]}


def comps_python(comps):
    if comps is None:
        return None
    return [None if c is None else {nm: n / d for nm, (n, d) in c.items()} for c in comps]


def comps_log(comps):
    return [[[nm, n, d] for nm, (n, d) in sorted(c.items())] for c in comps]


# ----------------------------------------------------------------------------- the twin
class CtorRejected(Exception):
    """A labware of the program (always a valid specification) could not be constructed."""


class Twin:
    def __init__(self, prog, blind=False):
        rt = robotools()
        self.rt = rt
        self.prog = prog
        # blind: nothing is read from the labware until the last operation has returned (see execute_blind)
        self.blind = blind
        self.unit = Fraction(prog["unit"][0], prog["unit"][1])
        self.tmp = None
        self.lws = []
        self._shared_arrays = {}
        for spec in prog["lw"]:
            try:
                self.lws.append(self._make_lw(spec))
            except Exception as e:  # noqa
                raise CtorRejected(f"{spec['name']}: {type(e).__name__}: {e}")
        wlp = prog["wl"]
        cls = {"evo": rt.EvoWorklist, "fluent": rt.FluentWorklist, "base": rt.BaseWorklist}[prog["dev"]]
        self.path = None
        args = {}
        if wlp.get("file"):
            self.tmp = tempfile.mkdtemp(prefix="rtv_fs_")
            self.path = os.path.join(self.tmp, wlp.get("fname", "out.gwl"))
            args["filepath"] = self.path if wlp.get("pathkind", "str") == "str" else __import__("pathlib").Path(self.path)
        mv = vol_float(wlp["maxv"], self.unit)
        if float(mv).is_integer() and wlp.get("maxint", True):
            mv = int(mv)
        if prog["dev"] == "evo" and wlp.get("alias"):
            # the deprecated spelling `robotools.Worklist`: an EvoWorklist that warns when it is constructed
            import warnings

            with warnings.catch_warnings():
                warnings.simplefilter("ignore")
                self.wl = rt.Worklist(max_volume=mv, auto_split=wlp.get("autosplit", True), diti_mode=wlp.get("diti", False), **args)
        else:
            self.wl = cls(max_volume=mv, auto_split=wlp.get("autosplit", True), diti_mode=wlp.get("diti", False), **args)
        self.cfg = {"maxv": wlp["maxv"], "autosplit": wlp.get("autosplit", True), "diti": wlp.get("diti", False)}
        self.prev_recs = []
        self.prev_hist = [[] for lw in self.lws] if blind else [self._hist_copy(lw) for lw in self.lws]
        self.fullhist = bool(prog.get("flags", {}).get("fullhist")) and not blind
        self.held = []  # arrays obtained from `volumes` after every event (they must stay snapshots)

    def _drop_defaults(self, pres, given, defaults):
        """Every third call leaves out the keyword arguments whose value is the documented default (callers rarely spell them)."""
        self.ncalls = getattr(self, "ncalls", 0) + 1
        if not pres.get("omit", self.ncalls % 3 == 1):
            return given
        return {k: v for k, v in given.items() if not (type(v) is type(defaults[k]) and v == defaults[k])}

    def close(self):
        if self.tmp:
            shutil.rmtree(self.tmp, ignore_errors=True)

    def _make_lw(self, spec):
        rt = self.rt
        R, C, V = spec["rows"], spec["cols"], spec["vrows"]
        init = spec["init"]  # flat column-major real wells, units
        names = spec.get("names") or [None] * (R * C)
        minv = vol_float(spec["minv"], self.unit)
        maxv = vol_float(spec["maxv"], self.unit)
        if V:
            iv = [vol_float(k, self.unit) for k in init]
            kw = {}
            if any(n is not None for n in names):
                kw["column_names"] = list(names)
            return rt.Trough(spec["name"], V, C, min_volume=minv, max_volume=maxv, initial_volumes=iv, **kw)
        share = spec.get("share")
        if share is not None and share in self._shared_arrays:
            # the very same ndarray object that another labware was constructed from (callers do re-use templates)
            arr = self._shared_arrays[share]
            cn = {}
            for i, k in enumerate(init):
                if names[i] is not None:
                    cn[wid(i % R, i // R)] = names[i]
            kw = {"component_names": cn} if cn else {}
            return rt.Labware(spec["name"], R, C, min_volume=minv, max_volume=maxv, initial_volumes=arr, **kw)
        arr = np.zeros((R, C))
        if share is not None:
            self._shared_arrays[share] = arr
        cn = {}
        for i, k in enumerate(init):
            r, c = i % R, i // R
            arr[r, c] = vol_float(k, self.unit)
            if names[i] is not None:
                cn[wid(r, c)] = names[i]
            elif spec.get("none_keys") and k > 0:
                cn[wid(r, c)] = None  # "no name given" spelled as an explicit None
        kw = {"component_names": cn} if cn else {}
        if spec.get("init_dtype"):
            # the caller's table has a narrower floating point type (the given values are exact in it)
            arr = arr.astype(getattr(np, spec["init_dtype"]))
        return rt.Labware(spec["name"], R, C, min_volume=minv, max_volume=maxv, initial_volumes=arr, **kw)

    @staticmethod
    def _hist_copy(lw):
        return [(lab, np.array(arr, copy=True)) for lab, arr in lw.history]

    def header_lw(self, k, spec):
        lw = self.lws[k]
        R, C, V = spec["rows"], spec["cols"], spec["vrows"]
        try:
            comp, _ = proj_comp(lw)
        except Exception as e:  # a query that raises is garbage, not a crash of the harness
            comp = [[[f"<raises {type(e).__name__}>", -3, 1]] for _ in range(R * C)]
        hist = lw.history
        names = spec.get("names") or [None] * (R * C)
        # the naming rule of C05 is stated for multi-row plates, troughs and single-well labware
        named = bool(V) or R > 1 or (R == 1 and C == 1)
        return {
            "name": spec["name"],
            "g": {"rows": R, "cols": C, "vrows": V},
            "minv": spec["minv"],
            "maxv": spec["maxv"],
            "grid": spec.get("grid", 10 + k),
            "site": spec.get("site", k),
            "spec": {
                "init": list(spec["init"]),
                "named": named,
                "names": [{"h": n is not None, "l": n or ""} for n in names],
            },
            "init": {
                "vol": proj_vol(lw, self.unit),
                "comp": comp,
                "hn": len(hist),
                "last": proj_entry(hist[-1][0], hist[-1][1], self.unit),
            },
        }

    # ------------------------------------------------------------------ projection after a call
    def project(self, oplabel=None):
        post = {"vol": [], "comp": [], "hn": [], "hsame": [], "last": [], "haswv": False, "obs": {"vol": True, "comp": True, "hist": True}}
        cs = True
        if self.blind:
            return post, cs
        # every third projection also asks every well for its composition (Labware.get_well_composition)
        self.nproj = getattr(self, "nproj", 0) + 1
        if self.nproj % 3 == 1:
            try:
                wv = [proj_wellview(lw) for lw in self.lws]
            except Exception:
                wv = [None]
            if all(w is not None for w in wv):
                post["haswv"], post["wview"] = True, wv
        # the queries themselves must answer: one that raises is logged as unobservable (and as garbage), not crashed on
        obs = {"vol": True, "comp": True, "hist": True}
        post["obs"] = obs
        for k, lw in enumerate(self.lws):
            spec = self.prog["lw"][k]
            nreal = spec["rows"] * spec["cols"]
            try:
                post["vol"].append(proj_vol(lw, self.unit))
            except Exception:
                obs["vol"] = False
                post["vol"].append([-1] * nreal)
            try:
                comp, sup = proj_comp(lw)
            except Exception as e:
                obs["comp"] = False
                comp, sup = [[[f"<raises {type(e).__name__}>", -3, 1]] for _ in range(nreal)], True
            cs = cs and sup
            post["comp"].append(comp)
            try:
                hist = lw.history
            except Exception:
                obs["hist"] = False
                hist = []
            prev = self.prev_hist[k]
            same = 0
            for (l0, a0), (l1, a1) in zip(prev, hist):
                if l0 == l1 and type(l0) == type(l1) and a0.shape == np.shape(a1) and np.array_equal(a0, a1):
                    same += 1
                else:
                    break
            post["hn"].append(len(hist))
            post["hsame"].append(same)
            if hist:
                post["last"].append(proj_entry(hist[-1][0], hist[-1][1], self.unit, oplabel))
            else:
                post["last"].append({"h": False, "l": "", "s": [], "base": False, "num": -1})
            self.prev_hist[k] = [(lab, np.array(arr, copy=True)) for lab, arr in hist]
        if self.fullhist:
            post["hist"] = [[proj_entry(lab, arr, self.unit) for lab, arr in lw.history] for lw in self.lws]
            post["report"] = [lex_report(lw.report, lw.name, self.unit) for lw in self.lws]
            self.held.append([lw.volumes for lw in self.lws])
            # ... and a caller may do with such an array what it likes (here: overwrite a fresh one completely)
            for lw in self.lws:
                try:
                    scratch = lw.volumes
                    scratch[...] = -12345.0
                except Exception:  # noqa (a read-only array is a legitimate answer as well)
                    pass
        return post, cs

    def final_event(self):
        """Pseudo event at the end of a full-history program: the arrays handed out earlier, as they are now."""
        post, cs = self.project(None)
        self.held.pop()
        held = [[[to_units(v, self.unit) for v in flat_f(a)] for a in per_lw] for per_lw in self.held]
        recs, prefix_ok, wlen = self.new_records(False)
        return {"op": "final", "a": {"held": held}, "out": "ok", "post": post, "recs": recs, "wprefix": prefix_ok, "wlen": wlen,
                "cs": cs, "tiesbig": False, "hasmodel": False}

    def new_records(self, with_cp):
        cur = list(self.wl)
        n0 = len(self.prev_recs)
        prefix_ok = len(cur) >= n0 and cur[:n0] == self.prev_recs
        new = cur[n0:] if len(cur) >= n0 else []
        self.prev_recs = cur
        return [lexer.lex(r, with_cp) for r in new], prefix_ok, len(cur)

    # ------------------------------------------------------------------ one operation
    def run_op(self, op, pres):
        """Executes one abstract operation; returns the logged event (a list of events for composite ones)."""
        name = op["op"]
        if name == "dilution":
            return self._dilution(op)
        unit = self.unit
        wl = self.wl
        a = {}
        exc = None
        oplabel = op.get("label")
        wp = pres.get("wells", "list")
        vp = pres.get("vols", "list")
        nk = pres.get("num", "float")
        extra = {"cs": True, "tiesbig": False}
        with_cp = bool(self.prog.get("flags", {}).get("file"))
        try:
            if name in ("add", "remove", "aspirate", "dispense"):
                lw = self.lws[op["lw"]]
                wells = shape_wells(op["wells"], wp)
                vols = shape_vols(op["vols"], unit, vp, nk)
                comps = op.get("comps")
                a = {
                    "lw": op["lw"] + 1,
                    "wells": log_wells(op["wells"]),
                    "vols": log_vols(op["vols"]),
                    "label": label_arg(oplabel),
                    "labelok": not (isinstance(oplabel, str) and ";" in oplabel),
                    "hascomps": comps is not None,
                    "comps": comps_log(comps) if comps is not None else [],
                    "kw": kw_log(op.get("kw", {})),
                }
                kw = kw_python(op.get("kw", {}))
                if name == "add":
                    lw.add(wells, vols, oplabel, compositions=comps_python(comps)) if comps is not None else lw.add(wells, vols, oplabel)
                elif name == "remove":
                    lw.remove(wells, vols, oplabel)
                elif name == "aspirate":
                    wl.aspirate(lw, wells, vols, label=oplabel, **kw)
                else:
                    if comps is not None:
                        wl.dispense(lw, wells, vols, label=oplabel, compositions=comps_python(comps), **kw)
                    else:
                        wl.dispense(lw, wells, vols, label=oplabel, **kw)
            elif name == "transfer":
                src, dst = self.lws[op["src"]], self.lws[op["dst"]]
                a = {
                    "src": op["src"] + 1,
                    "dst": op["dst"] + 1,
                    "sw": log_wells(op["sw"]),
                    "dw": log_wells(op["dw"]),
                    "vols": log_vols(op["vols"]),
                    "label": label_arg(oplabel),
                    "labelok": not (isinstance(oplabel, str) and ";" in oplabel),
                    "wash": str(op.get("wash", 1)),
                    "pby": op.get("pby", "auto"),
                    "kw": kw_log(op.get("kw", {})),
                }
                extra["tiesbig"] = _ties_big(op)
                kw = kw_python(op.get("kw", {}))
                wash = op.get("wash", 1)
                if op.get("washnp") and isinstance(wash, int):
                    wash = np.int64(wash)  # a scheme taken from an array of protocol parameters
                wl.transfer(
                    src,
                    shape_wells(op["sw"], wp),
                    dst,
                    shape_wells(op["dw"], pres.get("dwells", wp)),
                    shape_vols(op["vols"], unit, vp, nk),
                    **self._drop_defaults(pres, {"label": oplabel, "wash_scheme": wash, "partition_by": op.get("pby", "auto")},
                                          {"label": None, "wash_scheme": 1, "partition_by": "auto"}),
                    **kw,
                )
            elif name == "distribute":
                src, dst = self.lws[op["src"]], self.lws[op["dst"]]
                lab = op.get("label", "")
                texts = {k: op.get(k, "") for k in ("lc", "sid", "stype", "did", "dtype")}
                a = {
                    "src": op["src"] + 1,
                    "col": op["col"],
                    "dst": op["dst"] + 1,
                    "dw": log_wells(op["dw"]),
                    "vol": op["vol"],
                    "md": op.get("md", 1),
                    "reuse": op.get("reuse", 1),
                    "label": label_arg(lab),
                    "labelok": ";" not in lab,
                    "dir": op.get("dir", "left_to_right"),
                    "textok": all(isinstance(v, str) and ";" not in v and len(v) <= 32 for v in texts.values()),
                }
                a.update(texts)
                oplabel = lab
                wl.distribute(
                    src,
                    op["col"],
                    dst,
                    shape_wells(op["dw"], wp),
                    volume=shape_vols({"k": "s", "x": op["vol"]}, unit, "list", nk),
                    **self._drop_defaults(
                        pres,
                        {"diti_reuse": op.get("reuse", 1), "multi_disp": op.get("md", 1), "liquid_class": texts["lc"], "label": lab,
                         "direction": op.get("dir", "left_to_right"), "src_rack_id": texts["sid"], "src_rack_type": texts["stype"],
                         "dst_rack_id": texts["did"], "dst_rack_type": texts["dtype"]},
                        {"diti_reuse": 1, "multi_disp": 1, "liquid_class": "", "label": "", "direction": "left_to_right", "src_rack_id": "",
                         "src_rack_type": "", "dst_rack_id": "", "dst_rack_type": ""}),
                )
            elif name in ("save", "exit", "enter", "str", "clear", "listedit"):
                return self._file_op(op)
            elif name in ("log", "condense"):
                lw = self.lws[op["lw"]]
                lab = op.get("label")
                a = {"lw": op["lw"] + 1, "label": label_arg(lab if lab not in ("first", "last") else None),
                     "mode": lab if lab in ("first", "last") else "given", "n": op.get("n", 0),
                     "hist": [proj_entry(l0, a0, unit) for l0, a0 in lw.history]}
                self._a_pending = a
                if name == "log":
                    lw.log(lab)
                elif "label" in op:
                    lw.condense_log(op["n"], label=lab)
                else:
                    a["mode"] = "last"
                    lw.condense_log(op["n"])
            elif name == "emit":
                a = self._emit(op)
            elif name == "setlimits":
                # the public limit attributes of a labware are assigned between operations
                lw = self.lws[op["lw"]]
                a = {"lw": op["lw"] + 1, "minv": op["minv"], "maxv": op["maxv"]}
                lw.min_volume = vol_float(op["minv"], unit)
                lw.max_volume = vol_float(op["maxv"], unit)
            elif name == "setconfig":
                # the public attributes of the worklist are assigned between operations
                new = dict(self.cfg)
                for key in ("maxv", "autosplit", "diti"):
                    if key in op:
                        new[key] = op[key]
                cents = unit * 100
                unitc = int(cents) if cents.denominator == 1 else 0
                a = {"maxv": new["maxv"], "maxc": new["maxv"] * unitc, "autosplit": new["autosplit"], "diti": bool(new["diti"])}
                if not (0 < a["maxc"] < 2**31):
                    raise RuntimeError("unknown abstract operation setconfig outside the exact grid")
                if "maxv" in op:
                    mv = vol_float(op["maxv"], unit)
                    wl.max_volume = int(mv) if float(mv).is_integer() and op.get("maxint", True) else mv
                if "autosplit" in op:
                    wl.auto_split = op["autosplit"]
                if "diti" in op:
                    wl.diti_mode = bool(op["diti"])
                self.cfg = new
            elif name in ("evo_aspirate", "evo_dispense"):
                lw = self.lws[op["lw"]]
                spec = self.prog["lw"][op["lw"]]
                grid = op.get("grid", {"cls": "int", "v": spec.get("grid", 10 + op["lw"])})
                site = op.get("site", {"cls": "int", "v": spec.get("site", op["lw"]) + 1})
                arm = op.get("arm", {"cls": "int", "v": 0})
                a = {
                    "lw": op["lw"] + 1,
                    "wells": log_wells(op["wells"]),
                    "vols": log_vols(op["vols"]),
                    "tips": [tip_sym_log(t) for t in op["tips"]],
                    "grid": dict(grid),
                    "site": dict(site),
                    "arm": dict(arm),
                    "lc": text_arg(op.get("lc", "Water")),
                    "label": label_arg(oplabel),
                    "labelok": not (isinstance(oplabel, str) and ";" in oplabel),
                    "foreign": op.get("vols_present") in ("tuple", "ndarray"),
                    "hascomps": op.get("comps") is not None and name == "evo_dispense",
                    "comps": comps_log(op["comps"]) if op.get("comps") is not None and name == "evo_dispense" else [],
                }
                self._a_pending = a
                wells = shape_wells(op["wells"], wp)
                vols = shape_vols(op["vols"], unit, op.get("vols_present", "list"), nk)
                tips = [tip_value(t) for t in op["tips"]]
                if op.get("tips_present") == "tuple":
                    tips = tuple(tips)
                f = wl.evo_aspirate if name == "evo_aspirate" else wl.evo_dispense
                kw = {}
                if "arm" in op:
                    kw["arm"] = self._num_arg(arm)
                if a["hascomps"]:
                    kw["compositions"] = comps_python(op["comps"])
                f(lw, wells, (self._num_arg(grid), self._num_arg(site)), tips, vols, op.get("lc", "Water"), label=oplabel, **kw)
            elif name == "evo_wash":
                g = op["args"]
                a = {"tips": [tip_sym_log(t) for t in g["tips"]]}
                for k in ("wg", "ws", "cg", "cs", "arm", "wdelay", "cdelay", "airgap", "aspeed", "rspeed", "fast", "low"):
                    a[k] = dict(g[k])
                a["wv"] = g["wv"]  # hundredths of a millilitre
                a["cv"] = g["cv"]
                self._a_pending = a
                wl.evo_wash(
                    tips=[tip_value(t) for t in g["tips"]],
                    waste_location=(self._num_arg(g["wg"]), self._num_arg(g["ws"])),
                    cleaner_location=(self._num_arg(g["cg"]), self._num_arg(g["cs"])),
                    arm=self._num_arg(g["arm"]),
                    waste_vol=g["wv"] / 100 if g["wv"] % 100 else g["wv"] // 100,
                    waste_delay=self._num_arg(g["wdelay"]),
                    cleaner_vol=g["cv"] / 100,
                    cleaner_delay=self._num_arg(g["cdelay"]),
                    airgap=self._num_arg(g["airgap"]),
                    airgap_speed=self._num_arg(g["aspeed"]),
                    retract_speed=self._num_arg(g["rspeed"]),
                    fastwash=self._num_arg(g["fast"]),
                    low_volume=self._num_arg(g["low"]),
                )
            else:
                raise RuntimeError(f"unknown abstract operation {name}")
        except Exception as e:  # noqa
            if isinstance(e, RuntimeError) and "unknown abstract operation" in str(e):
                raise
            exc = e
            if name in ("emit", "evo_aspirate", "evo_dispense", "evo_wash", "log", "condense"):
                a = self._a_pending
        post, cs = self.project(oplabel if isinstance(oplabel, str) else None)
        if name in ("log", "condense"):
            post["histafter"] = [proj_entry(l0, a0, unit) for l0, a0 in self.lws[op["lw"]].history]
        recs, prefix_ok, wlen = self.new_records(with_cp)
        ev = {"op": name, "a": a, "out": outcome_class(exc), "post": post, "recs": recs, "wprefix": prefix_ok, "wlen": wlen,
              "hasmodel": False}
        extra["cs"] = cs
        ev.update(extra)
        if "model" in op:
            ev["hasmodel"] = True
            ev["model"] = op["model"]
        return ev

    # ------------------------------------------------------------------ observing library code (C14)
    def _lw_index(self, obj):
        for i, lw in enumerate(self.lws):
            if lw is obj:
                return i
        raise RuntimeError("observed call on a labware that is not part of the program")

    @staticmethod
    def _obs_wells(x):
        from .calls import _parse_wid

        a = np.asarray(x)
        if a.ndim == 0:
            return {"k": "s", "x": _parse_wid(str(a))}
        if a.ndim == 1:
            return {"k": "l", "x": [_parse_wid(str(e)) for e in a]}
        return {"k": "m", "x": [[_parse_wid(str(e)) for e in row] for row in a]}

    def _obs_vols(self, x):
        a = np.asarray(x, dtype=float)
        u = lambda v: to_units(v, self.unit)
        if a.ndim == 0:
            return {"k": "s", "x": u(a)}
        if a.ndim == 1:
            return {"k": "l", "x": [u(e) for e in a]}
        return {"k": "m", "x": [[u(e) for e in row] for row in a]}

    def _observe_worklist(self, sink):
        """Wrap transfer / commit of the worklist instance so that every call made by library code
        (DilutionPlan.to_worklist) is logged as an ordinary event. Returns a function that removes the wrappers."""
        wl = self.wl
        orig_transfer, orig_commit = wl.transfer, wl.commit
        tw = self
        depth = [0]

        def transfer(source, source_wells, destination, destination_wells, volumes, *, label=None, wash_scheme=1,
                     partition_by="auto", **kwargs):
            op = {"op": "transfer", "src": tw._lw_index(source), "sw": tw._obs_wells(source_wells), "dst": tw._lw_index(destination),
                  "dw": tw._obs_wells(destination_wells), "vols": tw._obs_vols(volumes), "label": label, "wash": wash_scheme,
                  "pby": partition_by}
            kw = {}
            for py, k in (("liquid_class", "lc"), ("rack_id", "rackid"), ("rack_type", "racktype"), ("tube_id", "tube"), ("forced_rack_type", "frt")):
                if py in kwargs:
                    kw[k] = kwargs[py]
            op["kw"] = kw
            a = tw._transfer_log(op)
            exc = None
            depth[0] += 1
            try:
                orig_transfer(source, source_wells, destination, destination_wells, volumes, label=label, wash_scheme=wash_scheme,
                              partition_by=partition_by, **kwargs)
            except Exception as e:  # noqa
                exc = e
            finally:
                depth[0] -= 1
            sink.append(tw._finish_event("transfer", a, exc, label if isinstance(label, str) else None, {"tiesbig": _ties_big(op)}))
            if exc is not None:
                raise exc

        def commit():
            if depth[0] > 0:  # a break emitted by transfer() itself, part of that event
                return orig_commit()
            exc = None
            try:
                orig_commit()
            except Exception as e:  # noqa
                exc = e
            sink.append(tw._finish_event("emit", {"fn": "commit"}, exc, None, {}))
            if exc is not None:
                raise exc

        wl.transfer, wl.commit = transfer, commit

        def undo():
            del wl.transfer
            del wl.commit

        return undo

    def _transfer_log(self, op):
        oplabel = op.get("label")
        return {
            "src": op["src"] + 1,
            "dst": op["dst"] + 1,
            "sw": log_wells(op["sw"]),
            "dw": log_wells(op["dw"]),
            "vols": log_vols(op["vols"]),
            "label": label_arg(oplabel),
            "labelok": not (isinstance(oplabel, str) and ";" in oplabel),
            "wash": str(op.get("wash", 1)),
            "pby": op.get("pby", "auto"),
            "kw": kw_log(op.get("kw", {})),
        }

    def _finish_event(self, name, a, exc, oplabel, extra):
        post, cs = self.project(oplabel)
        recs, prefix_ok, wlen = self.new_records(bool(self.prog.get("flags", {}).get("file")))
        ev = {"op": name, "a": a, "out": outcome_class(exc), "post": post, "recs": recs, "wprefix": prefix_ok, "wlen": wlen,
              "cs": cs, "tiesbig": False, "hasmodel": False}
        ev.update(extra)
        return ev

    def _dilution(self, op):
        """DilutionPlan(...).to_worklist(...): the transfers and commits it performs are observed one by one,
        followed by a summary event with the plan and what was consumed."""
        from .calls import plan_params_python, project_plan

        rt = self.rt
        p = op["params"]
        events = []
        exc = None
        proj = {"instr": [], "x": [], "xsup": False, "vstock": -1, "vdiluent": -1, "vmaxobs": [], "Robs": 0, "Cobs": 0}
        stock, diluent, plate = self.lws[op["stock"]], self.lws[op["diluent"]], self.lws[op["plate"]]
        dest = self.lws[op["dest"]] if op.get("dest") is not None else None
        before = [proj_vol(lw, self.unit) for lw in self.lws]
        plan = None
        try:
            plan = rt.DilutionPlan(**plan_params_python(p))
            proj = project_plan(plan, p)
        except Exception as e:  # noqa
            exc = e
        if plan is not None and op.get("used_before"):
            # a plan object is a value: it has been executed before, on other labware and another worklist
            try:
                scratch = [self._make_lw(spec) for spec in self.prog["lw"]]
                swl = type(self.wl)(max_volume=self.wl.max_volume, auto_split=self.wl.auto_split)
                skw = {}
                if dest is not None:
                    skw["destination_plate"] = scratch[op["dest"]]
                    skw["v_destination"] = vol_float(op["v_dest"], self.unit)
                plan.to_worklist(worklist=swl, stock=scratch[op["stock"]], stock_column=op.get("stock_column", 0),
                                 diluent=scratch[op["diluent"]], diluent_column=op.get("diluent_column", 0),
                                 dilution_plate=scratch[op["plate"]], **skw)
            except Exception:  # noqa
                pass
            try:
                proj = project_plan(plan, p)
            except Exception as e:  # noqa
                exc = e
        if plan is not None:
            undo = self._observe_worklist(events)
            try:
                kw = {}
                for k in ("mix_threshold", "mix_repeat", "mix_volume", "mix_wash"):
                    if k in op:
                        kw[k] = op[k]
                if dest is not None:
                    kw["destination_plate"] = dest
                    kw["v_destination"] = vol_float(op["v_dest"], self.unit)
                plan.to_worklist(worklist=self.wl, stock=stock, stock_column=op.get("stock_column", 0), diluent=diluent,
                                 diluent_column=op.get("diluent_column", 0), dilution_plate=plate, **kw)
            except Exception as e:  # noqa
                exc = e
            finally:
                undo()
        after = [proj_vol(lw, self.unit) for lw in self.lws]
        # fraction of the stock component in the wells of the dilution plate
        from fractions import Fraction

        sc = op.get("stock_column", 0)
        names = [nm for nm, arr in stock.composition.items() if arr[0, sc] == 1]
        frac, fsup = [], bool(names)
        R, C = p["R"], p["C"]
        if names and plan is not None:
            arr = plate.composition.get(names[0])
            for r in range(R):
                row = []
                for c in range(C):
                    f = float(arr[r, c]) if arr is not None else 0.0
                    if not math.isfinite(f):
                        row.append([-1, 1])
                        fsup = False
                        continue
                    fr = Fraction(f).limit_denominator(10**6)
                    if abs(float(fr) - f) > 1e-13:
                        fsup = False
                    row.append([fr.numerator, fr.denominator])
                frac.append(row)
        vmax = p["vmax"] if len(p["vmax"]) == p["C"] else [p["vmax"][0]] * p["C"]
        a = {"R": R, "C": C, "stock": p["stock"], "vmax": vmax, "mint10": p["mint10"], "small": max(vmax) <= 50,
             "stocklw": op["stock"] + 1, "stockcol": sc, "diluentlw": op["diluent"] + 1, "diluentcol": op.get("diluent_column", 0),
             "platelw": op["plate"] + 1, "hasdest": dest is not None, "destlw": (op["dest"] + 1) if dest is not None else 0,
             "vdest": op.get("v_dest", 0) if dest is not None else 0, "frac": frac, "fsup": bool(fsup and frac),
             "before": before, "after": after, "upm": int(1 / self.unit) if self.unit.numerator == 1 else 0,
             "roomy": bool(op.get("roomy", True)), "planned": plan is not None}
        a.update(proj)
        events.append(self._finish_event("dilution", a, exc, None, {}))
        return events

    # ------------------------------------------------------------------ low level emitters (C09)
    @staticmethod
    def _num_arg(n):
        """number spec -> python value: {"cls": "int"|"float"|"nan"|"inf"|"ninf"|"str", "v": int}; float = v + 0.5"""
        c = n["cls"]
        if c == "int":
            return int(n["v"])
        if c == "float":
            return n["v"] + 0.5
        if c == "intfloat":
            return float(n["v"])
        if c == "npint":
            return np.int64(n["v"])
        if c == "nan":
            return float("nan")
        if c == "inf":
            return float("inf")
        if c == "ninf":
            return float("-inf")
        return str(n["v"])

    @staticmethod
    def _milli(m):
        """volume: an int = thousandths of a microlitre, or {"cls": "neg"|"nan"|"inf"|"cents", "v": n}"""
        if isinstance(m, dict):
            c = m["cls"]
            if c == "nan":
                return float("nan")
            if c == "inf":
                return float("inf")
            if c == "neg":
                return -abs(m["v"]) / 1000
            return m["v"] / 100  # a large value given in hundredths
        v = m / 1000
        return int(v) if m % 1000 == 0 and (m // 1000) % 2 == 0 else v

    @staticmethod
    def _vol_log(m):
        if isinstance(m, dict):
            if m["cls"] == "cents":
                return {"cls": "num", "m": -1, "c": int(m["v"])}
            return {"cls": m["cls"], "m": -1, "c": -1}
        return {"cls": "num", "m": int(m), "c": -1}

    def _emit(self, op):
        """Calls one low level emitter; returns the logged arguments (raises what the emitter raises)."""
        wl = self.wl
        fn = op["fn"]
        g = op.get("args", {})
        if fn == "comment":
            c = g["text"]
            a = {"fn": fn, "isnone": c is None, "sep": isinstance(c, str) and ";" in c,
                 "lines": [ln.strip() for ln in c.split("\n")] if isinstance(c, str) and c else []}
            self._pending = lambda: wl.comment(c)
        elif fn == "wash":
            a = {"fn": fn, "given": "scheme" in g, "n": {"cls": g["scheme"]["cls"], "v": g["scheme"]["v"]} if "scheme" in g else {"cls": "int", "v": 1}}
            self._pending = (lambda: wl.wash(self._num_arg(g["scheme"]))) if "scheme" in g else (lambda: wl.wash())
        elif fn in ("decontaminate", "flush", "commit"):
            a = {"fn": fn}
            self._pending = getattr(wl, fn)
        elif fn == "set_diti":
            a = {"fn": fn, "n": {"cls": g["idx"]["cls"], "v": g["idx"]["v"]}}
            self._pending = lambda: wl.set_diti(self._num_arg(g["idx"]))
        elif fn in ("aspirate_well", "dispense_well"):
            kw = {k: v for k, v in g.items() if k in ("lc", "rackid", "racktype", "tube", "frt", "tip")}
            a = {"fn": fn, "rack": text_arg(g["rack"]), "pos": {"cls": g["pos"]["cls"], "v": g["pos"]["v"]}, "vol": self._vol_log(g["vol"]),
                 "kw": kw_log(kw)}
            self._pending = lambda: getattr(wl, fn)(g["rack"], self._num_arg(g["pos"]), self._milli(g["vol"]), **kw_python(kw))
        elif fn == "reagent_distribution":
            ex = g.get("excl")
            a = {"fn": fn, "srack": text_arg(g["srack"]), "drack": text_arg(g["drack"]),
                 "s1": dict(g["s1"]), "s2": dict(g["s2"]), "d1": dict(g["d1"]), "d2": dict(g["d2"]),
                 "vol": self._vol_log(g["vol"]), "reuse": dict(g.get("reuse", {"cls": "int", "v": 1})), "md": dict(g.get("md", {"cls": "int", "v": 1})),
                 "hasexcl": ex is not None, "excl": [int(x) for x in (ex or [])], "exclfrac": any(float(x) != int(x) for x in (ex or [])),
                 "lc": text_arg(g.get("lc", "")), "dir": g.get("dir", "left_to_right"),
                 "sid": text_arg(g.get("sid", "")), "stype": text_arg(g.get("stype", "")), "did": text_arg(g.get("did", "")),
                 "dtype": text_arg(g.get("dtype", ""))}
            kw = {}
            for k, py in (("reuse", "diti_reuse"), ("md", "multi_disp")):
                if k in g:
                    kw[py] = self._num_arg(g[k])
            for k, py in (("lc", "liquid_class"), ("dir", "direction"), ("sid", "src_rack_id"), ("stype", "src_rack_type"),
                          ("did", "dst_rack_id"), ("dtype", "dst_rack_type")):
                if k in g:
                    kw[py] = g[k]
            if ex is not None:
                kw["exclude_wells"] = list(ex) if g.get("exclform", "list") == "list" else set(ex)
            self._pending = lambda: wl.reagent_distribution(g["srack"], self._num_arg(g["s1"]), self._num_arg(g["s2"]), g["drack"],
                                                            self._num_arg(g["d1"]), self._num_arg(g["d2"]), volume=self._milli(g["vol"]), **kw)
        else:
            raise RuntimeError(f"unknown abstract operation emit/{fn}")
        self._a_pending = a
        call, self._pending = self._pending, None
        call()
        return a

    def _file_op(self, op):
        """save(path) / leaving the with-block / entering it / str(): logs the bytes found on disk afterwards."""
        import pathlib

        name = op["op"]
        wl = self.wl
        exc = None
        a = {"ext": op.get("ext", "gwl"), "haspath": True, "pathkind": op.get("pathkind", "str"), "pre": op.get("pre", "absent"),
             "propagating": bool(op.get("exc", False))}
        fileinfo = {"exists": False, "bytes": [], "lines": []}
        strcp = []
        path = None
        if name == "save":
            if self.tmp is None:
                self.tmp = tempfile.mkdtemp(prefix="rtv_fs_")
            fname = op.get("fname") or ("saved.gwl" if a["ext"] == "gwl" else "saved.txt")
            path = os.path.join(self.tmp, fname)
            os.makedirs(os.path.dirname(path), exist_ok=True)
        elif name == "exit":
            path = self.path
            a["haspath"] = path is not None
        if path is not None:
            pre = op.get("pre", "absent")
            if pre == "longer":
                with open(path, "wb") as f:
                    f.write(b"X;previous content\r\n" * 150)
            elif pre == "shorter":
                with open(path, "wb") as f:
                    f.write(b"Q")
            elif pre in ("same-lf", "same-cr"):
                # the very records that are about to be saved, but with other line terminators
                sep = b"\n" if pre == "same-lf" else b"\r"
                with open(path, "wb") as f:
                    f.write(sep.join(r.encode("latin_1", "replace") for r in list(wl)))
            elif pre == "absent" and os.path.exists(path):
                os.unlink(path)
        try:
            if name == "enter":
                if wl.__enter__() is not wl:
                    raise RuntimeError("__enter__ did not return the worklist")
            elif name == "clear":
                wl.clear()
            elif name == "listedit":
                # the caller edits the record list with the list's own operations
                kind, i, j = op["kind"], min(op.get("i", 0), len(wl)), min(op.get("j", 0), len(wl))
                text = op.get("text", "C;edited by hand")
                a.update({"kind": kind, "i": i, "j": j, "rec": lexer.lex(text, True)})
                if kind == "pop":
                    wl.pop()
                elif kind == "pop0":
                    del wl[0]
                elif kind == "reverse":
                    wl.reverse()
                elif kind == "insert":
                    wl.insert(i, text)
                elif kind == "setitem":
                    wl[i] = text
                elif kind == "delslice":
                    del wl[i:j]
                else:
                    raise RuntimeError("unknown abstract operation listedit " + kind)
            elif name == "str":
                import re as _re

                text = str(wl)
                strcp = [lexer.cps(x) for x in (_re.split("\r\n|\n|\r", text) if text else [])]
                if repr(wl) != text:
                    strcp = [[-1]]
            elif name == "save":
                wl.save(path if a["pathkind"] == "str" else pathlib.Path(path))
            else:
                if op.get("exc"):
                    e = ValueError("propagating")
                    wl.__exit__(ValueError, e, None)
                else:
                    wl.__exit__(None, None, None)
        except Exception as e:  # noqa
            exc = e
        if path is not None and os.path.exists(path):
            with open(path, "rb") as f:
                data = f.read()
            fileinfo["exists"] = True
            fileinfo["bytes"] = list(data)
            fileinfo["lines"] = [list(x) for x in data.split(b"\r\n")]
        post, cs = self.project(None)
        if name == "listedit":
            self.prev_recs = list(wl)
        recs, prefix_ok, wlen = self.new_records(True)
        return {"op": name, "a": a, "out": outcome_class(exc), "post": post, "recs": recs, "wprefix": prefix_ok,
                "wlen": wlen, "file": fileinfo, "strlines": strcp, "cs": cs, "tiesbig": False, "hasmodel": False}


def _flat(a):
    if a["k"] == "s":
        return [a["x"]]
    if a["k"] == "l":
        return list(a["x"])
    R = len(a["x"])
    C = len(a["x"][0]) if R else 0
    return [a["x"][i % R][i // R] for i in range(R * C)]


def _ties_big(op):
    """More than 16 triples in one column group: numpy's argsort is then not stable and the order
    among equal keys (hence which sub-step fails first) is not determined by the arguments."""
    try:
        s, d = _flat(op["sw"]), _flat(op["dw"])
        n = max(len(s), len(d))
        if n <= 16:
            return False
        from collections import Counter

        cs = Counter(w[1] for w in (s if len(s) == n else s * n))
        cd = Counter(w[1] for w in (d if len(d) == n else d * n))
        return max(cs.values()) > 16 or max(cd.values()) > 16
    except Exception:
        return True


# ----------------------------------------------------------------------------- whole programs
BLIND_OPS = {"transfer", "distribute", "aspirate", "dispense", "add", "remove", "setconfig", "setlimits"}


def end_state(tw):
    """What a caller can see once a program is over: volumes, compositions, history lengths, newest entries, the worklist."""
    post, cs = tw.project(None)
    return {"vol": post["vol"], "comp": post["comp"], "hn": post["hn"], "last": post["last"], "wl": [str(r) for r in tw.wl], "cs": cs}


def execute_blind(prog):
    """The same program on fresh objects, without a single look at the labware (volumes, compositions, history, report)
    until the last operation has returned: looking must not matter.  Returns the end state, or None when the program
    contains operations that themselves consult the state."""
    global SNAP
    if any(op["op"] not in BLIND_OPS for op in prog["ops"]):
        return None
    SNAP = bool(prog.get("snap", False) or prog.get("millis", False))
    try:
        tw = Twin(prog, blind=True)
    except CtorRejected:
        SNAP = False
        return None
    try:
        pres = prog.get("pres", [])
        for i, op in enumerate(prog["ops"]):
            tw.run_op(op, pres[i] if i < len(pres) else {})
        tw.blind = False
        return end_state(tw)
    finally:
        SNAP = False
        tw.close()


def execute(prog):
    """Run a program; returns the trace (header + events) for Trace_Twin."""
    global SNAP
    SNAP = bool(prog.get("snap", False) or prog.get("millis", False))  # 0.001 uL is not a binary fraction
    try:
        tw = Twin(prog)
    except CtorRejected as e:
        # nothing of the program can run; the trace consists of the rejected (valid) constructor call, judged by C20.accept
        SNAP = False
        return {"id": prog["id"], "dev": prog["dev"], "unitc": 1, "k": 1, "pair": bool(prog.get("pair", False)), "millis": False,
                "wl": {"maxv": 1, "maxc": 1, "autosplit": True, "diti": False}, "lw": [], "splitting": False, "ctorfail": True,
                "ctorerror": str(e)[:300],
                "flags": {"records": False, "robot": False, "comp": False, "norm": False, "file": False, "fullhist": False}, "events": [],
                "blind": {"has": False}}
    try:
        unit = tw.unit
        flags = dict(prog.get("flags", {}))
        cents = unit * 100
        unitc = int(cents) if cents.denominator == 1 and cents < 2**20 else 0
        k = int(1 / unit) if unit.numerator == 1 and unit.denominator <= 1024 else 0
        wlp = prog["wl"]
        maxc = wlp["maxv"] * unitc
        hdr = {
            "id": prog["id"],
            "dev": prog["dev"],
            "unitc": unitc if unitc else 1,
            "k": k if k else 1,
            "pair": bool(prog.get("pair", False)),
            "millis": bool(prog.get("millis", False)),
            "wl": {"maxv": wlp["maxv"], "maxc": maxc if 0 < maxc < 2**31 else 0, "autosplit": wlp.get("autosplit", True),
                   "diti": wlp.get("diti", False)},
            "lw": [tw.header_lw(i, spec) for i, spec in enumerate(prog["lw"])],
        }
        splitting = k > 0
        flags.setdefault("records", unitc > 0 and maxc < 2**31)
        flags.setdefault("robot", flags["records"])
        flags.setdefault("comp", True)
        flags.setdefault("norm", False)
        flags.setdefault("file", False)
        flags.setdefault("fullhist", False)
        flags.setdefault("deep", False)
        if hdr["millis"]:
            # unit = 1/1000 uL: records carry rounded volumes, judged by C01.rounding / C01.address, not by the exact robot replay
            flags["records"] = True
            flags["robot"] = False
            hdr["wl"]["maxc"] = wlp["maxv"] // 10
        flags["robot"] = flags["robot"] and flags["records"]
        hdr["flags"] = flags
        hdr["splitting"] = splitting
        hdr["ctorfail"] = False
        events = []
        pres = prog.get("pres", [])
        for i, op in enumerate(prog["ops"]):
            p = pres[i] if i < len(pres) else {}
            ev = tw.run_op(op, p)
            events.extend(ev if isinstance(ev, list) else [ev])
        if tw.fullhist:
            events.append(tw.final_event())
        if flags.get("deep"):
            # a dilution series whose exact fractions leave the 32 bit range by construction: only the presence of the
            # components is judged (C05.support), the fraction clauses are switched off for the whole trace
            for ev in events:
                ev["cs"] = False
        hdr["events"] = events
        # observation must not matter: the end state of this (observed) run, to be compared with an unobserved one
        hdr["blind"] = {"has": False}
        if prog.get("blind") and all(op["op"] in BLIND_OPS for op in prog["ops"]):
            seen = end_state(tw)
            SNAP = False
            unseen = execute_blind(prog)
            if unseen is not None:
                hdr["blind"] = {"has": True, "seen": seen, "unseen": unseen}
        return hdr
    finally:
        SNAP = False
        tw.close()
