"""Program generation: seeded, state aware drivers for the twin harness.

A Session executes operations one at a time on the real implementation; the next operation may be
chosen from the volumes the implementation reports (so that most operations are feasible and limit
violations can be aimed at), but nothing here predicts results - the specification judges them.
The finished program (header + operation list + presentation choices) is replayable verbatim.
"""
import copy
from fractions import Fraction

from . import twin

PRESENT = ["list", "ndarray", "tuple", "fortran"]
LABELS = [None, "step", "mix it", "two\nlines", "transfer_7", "x" * 20, "", "sample {i}", "50 % {} of %s", "a\\b 'q' \"d\" (0)", "two  blanks   inside", "tab\tinside", " padded label ", "trailing "]


def mk_plate(name, R, C, minv, maxv, init, names=None):
    return {"kind": "plate", "name": name, "rows": R, "cols": C, "vrows": 0, "minv": minv, "maxv": maxv, "init": list(init), "names": names}


def mk_trough(name, V, C, minv, maxv, init, names=None):
    return {"kind": "trough", "name": name, "rows": 1, "cols": C, "vrows": V, "minv": minv, "maxv": maxv, "init": list(init), "names": names}


def id_wells(spec):
    rows = spec["vrows"] or spec["rows"]
    return [[r, c] for c in range(spec["cols"]) for r in range(rows)]


def real_idx(spec, w):
    return w[1] if spec["vrows"] else w[1] * spec["rows"] + w[0]


class Session:
    def __init__(self, header):
        self.prog = copy.deepcopy(header)
        self.prog.setdefault("ops", [])
        self.prog.setdefault("pres", [])
        self.events = []
        self.failed = False
        self.broken = False
        try:
            self.tw = twin.Twin(self.prog)
        except twin.CtorRejected:
            # the (valid) labware cannot be constructed: the program stays empty and its trace reports C20.accept
            self.tw, self.broken, self.vol = None, True, []
            return
        self.vol = [twin.proj_vol(lw, self.tw.unit) for lw in self.tw.lws]

    def do(self, op, pres=None):
        pres = pres or {}
        ev = self.tw.run_op(op, pres)
        self.prog["ops"].append(op)
        self.prog["pres"].append(pres)
        evs = ev if isinstance(ev, list) else [ev]
        self.events.extend(evs)
        ev = evs[-1]
        self.vol = ev["post"]["vol"]
        if ev["out"] != "ok":
            self.failed = True
        return ev

    def finish(self):
        """Re-run the recorded program from scratch so that the trace is exactly what a replay produces."""
        self.close()
        return self.prog, twin.execute(self.prog)

    def close(self):
        if self.tw is not None:
            self.tw.close()


# ----------------------------------------------------------------------------- argument shapes
def pick_wells(rng, spec, n, repeats=True, same_column=False):
    ws = id_wells(spec)
    if same_column:
        c = rng.randrange(spec["cols"])
        ws = [w for w in ws if w[1] == c]
    if repeats:
        return [list(rng.choice(ws)) for _ in range(n)]
    rng.shuffle(ws)
    return [list(w) for w in ws[:n]]


def shape_of(rng, items, allow2d=True):
    """Wrap a flat list into one of the argument shapes. 2-D shapes are chosen non-square when possible,
    and the flat list is laid out so that column-major reading gives back `items`."""
    n = len(items)
    kind = rng.random()
    if n == 1 and kind < 0.4:
        return {"k": "s", "x": items[0]}
    if allow2d and n >= 2 and kind < 0.45:
        divs = [r for r in range(1, n + 1) if n % r == 0]
        R = rng.choice(divs)
        C = n // R
        rows = [[items[c * R + r] for c in range(C)] for r in range(R)]
        return {"k": "m", "x": rows}
    return {"k": "l", "x": list(items)}


def same_shape(a, values):
    """Give `values` (flat, column-major) the shape of a."""
    if a["k"] == "s":
        return {"k": "s", "x": values[0]}
    if a["k"] == "l":
        return {"k": "l", "x": list(values)}
    R = len(a["x"])
    C = len(a["x"][0])
    return {"k": "m", "x": [[values[c * R + r] for c in range(C)] for r in range(R)]}


def pres_choice(rng):
    return {"wells": rng.choice(PRESENT), "vols": rng.choice(PRESENT), "num": rng.choice(["float", "int", "np", "float", "npint", "npuint"]),
            "dwells": rng.choice(PRESENT)}


def label_choice(rng, multiline=True):
    while True:
        lab = rng.choice(LABELS)
        if multiline or lab is None or "\n" not in lab:
            return lab


# ----------------------------------------------------------------------------- volume choices
def feasible_remove(rng, sess, k, wells, big):
    """Volumes (units) to remove from wells that the observed state can afford (sequentially)."""
    spec = sess.prog["lw"][k]
    avail = list(sess.vol[k])
    out = []
    for w in wells:
        i = real_idx(spec, w)
        room = avail[i] - spec["minv"]
        if room <= 0 or avail[i] < 0:
            v = 0
        else:
            v = rng.randint(0, min(room, big))
        avail[i] -= v
        out.append(v)
    return out


def feasible_add(rng, sess, k, wells, big):
    spec = sess.prog["lw"][k]
    cur = list(sess.vol[k])
    out = []
    for w in wells:
        i = real_idx(spec, w)
        room = spec["maxv"] - cur[i]
        v = rng.randint(0, min(room, big)) if room > 0 else 0
        cur[i] += v
        out.append(v)
    return out


def maybe_scalar(rng, vols):
    if len(set(vols)) == 1 and rng.random() < 0.6:
        return {"k": "s", "x": vols[0]}
    return None


# ----------------------------------------------------------------------------- operation strategies
def op_labware(rng, sess, name, big, fault=0.0, comps=False, nmax=4, allow2d=True, kw=None):
    k = rng.randrange(len(sess.prog["lw"]))
    spec = sess.prog["lw"][k]
    n = rng.randint(1, nmax)
    wells = pick_wells(rng, spec, n)
    if name in ("remove", "aspirate"):
        vols = feasible_remove(rng, sess, k, wells, big)
    else:
        vols = feasible_add(rng, sess, k, wells, big)
    if rng.random() < 0.35:
        # one volume for all wells: affordable for every real well given how often it is listed
        occ = {}
        for w in wells:
            occ[real_idx(spec, w)] = occ.get(real_idx(spec, w), 0) + 1
        if name in ("remove", "aspirate"):
            vmax = min(max(0, sess.vol[k][i] - spec["minv"]) // m for i, m in occ.items())
        else:
            vmax = min(max(0, spec["maxv"] - sess.vol[k][i]) // m for i, m in occ.items())
        vols = [rng.randint(0, max(0, min(vmax, big)))] * n
    if fault and rng.random() < fault:
        j = rng.randrange(n)
        i = real_idx(spec, wells[j])
        if name in ("remove", "aspirate"):
            vols[j] = max(0, sess.vol[k][i] - spec["minv"]) + rng.choice([1, 1, 2, 5])
        else:
            vols[j] = max(0, spec["maxv"] - sess.vol[k][i]) + rng.choice([1, 1, 2, 5])
        if name in ("aspirate", "dispense") and j + 1 < n and rng.random() < 0.3:
            # a second fault at a later well: a step above the worklist's max_volume
            vols[rng.randrange(j + 1, n)] = sess.prog["wl"]["maxv"] + rng.choice([1, 3])
    wshape = shape_of(rng, wells, allow2d)
    vshape = maybe_scalar(rng, vols) or same_shape(wshape, vols)
    if wshape["k"] == "m" and rng.random() < 0.3:
        vshape = {"k": "l", "x": list(vols)}
    op = {"op": name, "lw": k, "wells": wshape, "vols": vshape, "label": label_choice(rng, multiline=not sess.prog.get("flags", {}).get("fullhist"))}
    if comps and name in ("add", "dispense"):
        pool = [{"x": (1, 1)}, {"x": (1, 2), "y": (1, 2)}, {"water": (1, 1)}, {"x": (1, 4), "z": (3, 4)}]
        op["comps"] = [dict(rng.choice(pool)) for _ in range(n)]
    if kw and name in ("aspirate", "dispense"):
        op["kw"] = kw
    return op, pres_choice(rng)


def op_transfer(rng, sess, big, fault=0.0, nmax=4, same_ok=True, washes=(1, 2, 3, 4, "flush", "reuse"), kw=None, allow2d=True):
    nl = len(sess.prog["lw"])
    ks = rng.randrange(nl)
    kd = rng.randrange(nl) if same_ok else rng.choice([k for k in range(nl) if k != ks] or [ks])
    ss, ds = sess.prog["lw"][ks], sess.prog["lw"][kd]
    n = rng.randint(1, nmax)
    sw = pick_wells(rng, ss, n)
    dw = pick_wells(rng, ds, n)
    # volumes bounded by what source and destination can take (rough, sequential on both sides)
    avail = list(sess.vol[ks]) if ks != kd else None
    vols = []
    cur_s = list(sess.vol[ks])
    cur_d = cur_s if ks == kd else list(sess.vol[kd])
    for s, d in zip(sw, dw):
        i, j = real_idx(ss, s), real_idx(ds, d)
        room_s = cur_s[i] - ss["minv"]
        room_d = ds["maxv"] - cur_d[j]
        v = rng.randint(0, max(0, min(room_s, room_d, big)))
        # an intermediate large-volume step must never overflow: keep a margin equal to the volume itself
        cur_s[i] -= v
        cur_d[j] += v
        vols.append(v)
    if fault and rng.random() < fault:
        j = rng.randrange(n)
        if rng.random() < 0.25:
            vols[j] = -rng.choice([1, 2, big])  # a negative volume: refused under every configuration of the worklist
        else:
            vols[j] = vols[j] + rng.choice([1, 2, big, 3 * big])
    # broadcast forms
    form = rng.random()
    swl, dwl, vl = sw, dw, vols
    if n > 1 and form < 0.15:
        swl = [sw[0]]
        vl = None
    elif n > 1 and form < 0.3:
        dwl = [dw[0]]
        vl = None
    if vl is None:
        # recompute a uniform feasible volume for the broadcast case
        s_list = swl * n if len(swl) == 1 else swl
        d_list = dwl * n if len(dwl) == 1 else dwl
        cur_s = list(sess.vol[ks])
        cur_d = cur_s if ks == kd else list(sess.vol[kd])
        v = big
        for s, d in zip(s_list, d_list):
            i, j = real_idx(ss, s), real_idx(ds, d)
            v = min(v, max(0, (cur_s[i] - ss["minv"]) // n), max(0, (ds["maxv"] - cur_d[j]) // n))
        vl = [rng.randint(0, v)] * n
    sshape = shape_of(rng, swl, allow2d)
    dshape = shape_of(rng, dwl, allow2d) if len(dwl) != len(swl) or rng.random() < 0.5 else same_shape(sshape, dwl) if len(dwl) == len(swl) else shape_of(rng, dwl)
    vshape = maybe_scalar(rng, vl) or (same_shape(sshape, vl) if len(swl) == n else {"k": "l", "x": list(vl)})
    op = {"op": "transfer", "src": ks, "sw": sshape, "dst": kd, "dw": dshape, "vols": vshape, "label": label_choice(rng, multiline=not sess.prog.get("flags", {}).get("fullhist")),
          "wash": rng.choice(list(washes)), "pby": rng.choice(["auto", "auto", "source", "destination"])}
    if isinstance(op["wash"], int) and rng.random() < 0.2:
        op["washnp"] = True
    if kw:
        op["kw"] = kw
    return op, pres_choice(rng)


def op_distribute(rng, sess, big, fault=0.0, nmax=5):
    troughs = [k for k, s in enumerate(sess.prog["lw"]) if s["vrows"]]
    if not troughs:
        return None, None
    ks = rng.choice(troughs)
    kd = rng.randrange(len(sess.prog["lw"]))
    ss, ds = sess.prog["lw"][ks], sess.prog["lw"][kd]
    col = rng.randrange(ss["cols"])
    # destinations with pairwise distinct positions on both devices: distinct real wells
    ws = id_wells(ds)
    rng.shuffle(ws)
    seen, dw = set(), []
    for w in ws:
        key = real_idx(ds, w)
        if ks == kd and key == col:
            continue
        if key not in seen:
            seen.add(key)
            dw.append(list(w))
    n = rng.randint(1, max(1, min(nmax, len(dw))))
    dw = dw[:n]
    if not dw:
        return None, None
    room_s = max(0, sess.vol[ks][col] - ss["minv"]) // n
    room_d = min(ds["maxv"] - sess.vol[kd][real_idx(ds, w)] for w in dw)
    v = rng.randint(0, max(0, min(room_s, room_d, big)))
    if fault and rng.random() < fault:
        v = max(room_s, room_d, 0) + rng.choice([1, 2])
    op = {"op": "distribute", "src": ks, "col": col, "dst": kd, "dw": shape_of(rng, dw), "vol": v,
          "md": rng.choice([1, 1, 2, 3, 6, 12]), "reuse": rng.choice([1, 1, 2, 4]), "label": rng.choice(["", "dist", "fill up"]),
          "dir": rng.choice(["left_to_right", "right_to_left"]), "lc": rng.choice(["", "Water", "Water_FD"])}
    return op, pres_choice(rng)


# ----------------------------------------------------------------------------- labware sets
def random_labware(rng, small=True, maxunits=16, nlw=None, big_geom=False):
    """A labware set: at least one plate and one trough."""
    lws = []
    n = nlw or rng.choice([2, 2, 3])
    for k in range(n):
        name = ["plate", "trough", "dil", "src"][k] + ("" if k < 2 else str(k))
        as_trough = k == 1 or (k > 1 and rng.random() < 0.4)
        maxv = rng.randint(max(4, maxunits // 2), maxunits)
        minv = rng.choice([0, 0, 1, 2]) if maxv > 4 else 0
        if as_trough:
            V = rng.randint(1, 16 if big_geom else 8)
            C = rng.randint(1, 4)
            init = [rng.choice([0, maxv, rng.randint(minv, maxv), rng.randint(minv, maxv)]) for _ in range(C)]
            names = None
            if rng.random() < 0.4:
                names = [(rng.choice(["water", "stock", None]) if v > 0 else None) for v in init]
            lws.append(mk_trough(name, V, C, minv, maxv, init, names))
        else:
            if big_geom:
                R, C = rng.randint(1, 16), rng.randint(1, 24)
            elif small:
                R, C = rng.randint(1, 3), rng.randint(1, 4)
            else:
                R, C = rng.randint(1, 8), rng.randint(1, 12)
            init = [rng.choice([0, 0, rng.randint(0, maxv), rng.randint(minv, maxv)]) for _ in range(R * C)]
            names = None
            if R == 1 and C > 1:
                # default names of single-row multi-column plates are outside the naming rule: name them
                names = [(f"c{i}" if v > 0 else None) for i, v in enumerate(init)]
            elif rng.random() < 0.3:
                names = [(rng.choice(["water", "acid", None]) if v > 0 else None) for v in init]
            lws.append(mk_plate(name, R, C, minv, maxv, init, names))
    return lws


def header(pid, dev, unit, wlmax, lws, autosplit=True, diti=False, flags=None, pair=False):
    return {"id": pid, "dev": dev, "unit": [unit.numerator, unit.denominator] if isinstance(unit, Fraction) else list(unit),
            "wl": {"maxv": wlmax, "autosplit": autosplit, "diti": diti}, "lw": lws, "flags": dict(flags or {}), "pair": pair}


def random_kw(rng):
    """Valid pass-through keyword arguments for aspirate/dispense records."""
    kw = {}
    if rng.random() < 0.7:
        kw["lc"] = rng.choice(["Water_FD", "Trough_Water_FD_AspLLT", "x", "\u00b5-class"])
    if rng.random() < 0.5:
        n = rng.randint(1, 4)
        if rng.random() < 0.3:
            kw["tip"] = {"k": "one", "s": rng.choice([["int", rng.randint(1, 8)], ["tip", rng.randint(1, 8)], ["any"]])}
        else:
            kw["tip"] = {"k": "coll", "x": [[rng.choice(["int", "tip"]), rng.randint(1, 8)] for _ in range(n)],
                         "present": rng.choice(["list", "tuple", "list", "set"])}
    for f in ("rackid", "racktype", "tube", "frt"):
        if rng.random() < 0.3:
            kw[f] = rng.choice(["id-1", "Greiner 96", "X" * 32, "b"])
    return kw
