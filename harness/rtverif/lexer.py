"""A lexer for Tecan worklist records, written from the Tecan format and not from robotools.

It only splits text into fields and converts canonical numerals; whether a record is well formed
is decided by the specification (Render(decoded) = raw in RTText).  Every decoded record carries the
raw string; numeric fields that do not parse get a sentinel so that the TLA+ comparison fails cleanly.
"""
import re
from decimal import Decimal, InvalidOperation

BAD = -7
_INT = re.compile(r"^(0|[1-9][0-9]*)$")
_SINT = re.compile(r"^-?(0|[1-9][0-9]*)$")
_VOL2 = re.compile(r"^(0|[1-9][0-9]*)\.([0-9][0-9])$")


def _int(s, signed=False):
    if (_SINT if signed else _INT).match(s or ""):
        v = int(s)
        if abs(v) < 2**31:
            return v
    return BAD


def _cents(s):
    m = _VOL2.match(s or "")
    if not m:
        return BAD
    v = int(m.group(1)) * 100 + int(m.group(2))
    return v if v < 2**31 else BAD


def _dec_cents(s):
    """A plain decimal numeral (as in R records / script commands) in hundredths, BAD if not exact."""
    try:
        d = Decimal(s)
    except (InvalidOperation, TypeError):
        return BAD
    if not d.is_finite():
        return BAD
    c = d * 100
    if c != c.to_integral_value() or abs(c) >= 2**31:
        return BAD
    return int(c)


def cps(s):
    return [ord(ch) for ch in s]


def _field(fields, i):
    return fields[i] if i < len(fields) else ""


def lex(raw, with_cp=False):
    rec = _lex(raw)
    rec["raw"] = raw
    if with_cp:
        rec["cp"] = cps(raw)
    return rec


def _lex(raw):
    if not isinstance(raw, str):
        return {"t": "?"}
    if raw.startswith("B;Aspirate(") or raw.startswith("B;Dispense("):
        return _lex_script(raw)
    if raw.startswith("B;Wash("):
        return _lex_wash(raw)
    f = raw.split(";")
    t = f[0]
    nf = len(f)
    if t in ("A", "D"):
        tip = _field(f, 9)
        return {
            "t": t,
            "nf": nf,
            "rack": _field(f, 1),
            "rackid": _field(f, 2),
            "racktype": _field(f, 3),
            "pos": _int(_field(f, 4)),
            "tube": _field(f, 5),
            "cents": _cents(_field(f, 6)),
            "lc": _field(f, 7),
            "tiptype": _field(f, 8),
            "tip": -1 if tip == "" else _int(tip),
            "frt": _field(f, 10),
        }
    if t == "R":
        excl = [_int(x) for x in f[16:]]
        return {
            "t": "R",
            "nf": nf,
            "srack": _field(f, 1),
            "sid": _field(f, 2),
            "stype": _field(f, 3),
            "s1": _int(_field(f, 4)),
            "s2": _int(_field(f, 5)),
            "drack": _field(f, 6),
            "did": _field(f, 7),
            "dtype": _field(f, 8),
            "d1": _int(_field(f, 9)),
            "d2": _int(_field(f, 10)),
            "volraw": _field(f, 11),
            "volc": _dec_cents(_field(f, 11)),
            "lc": _field(f, 12),
            "reuse": _int(_field(f, 13)),
            "md": _int(_field(f, 14)),
            "dir": _int(_field(f, 15)),
            "excl": excl,
        }
    if t == "W" and nf == 2 and f[1] == "":
        return {"t": "W", "nf": nf, "scheme": 0}
    if re.match(r"^W[0-9]+$", t) and nf == 2 and f[1] == "":
        return {"t": "W", "nf": nf, "scheme": _int(t[1:])}
    if t in ("WD", "F", "B") and nf == 2 and f[1] == "":
        return {"t": t, "nf": nf}
    if t == "S":
        return {"t": "S", "nf": nf, "idx": _int(_field(f, 1))}
    if t == "C":
        return {"t": "C", "nf": nf, "text": raw[2:], "stext": raw[2:].strip()}
    return {"t": "?", "nf": nf}


def _split_args(s):
    """Split a script argument list at commas that are not inside double quotes."""
    out, cur, q = [], "", False
    for ch in s:
        if ch == '"':
            q = not q
            cur += ch
        elif ch == "," and not q:
            out.append(cur)
            cur = ""
        else:
            cur += ch
    out.append(cur)
    return out


def _unq(s):
    if len(s) >= 2 and s[0] == '"' and s[-1] == '"':
        return s[1:-1], True
    return s, False


def _lex_script(raw):
    t = "BA" if raw.startswith("B;Aspirate(") else "BD"
    bad = {"t": t, "ok": False, "mask": BAD, "lc": "", "vols": [BAD] * 8, "volraw": [""] * 8, "tail": [BAD] * 4,
           "grid": BAD, "site": BAD, "spacing": BAD, "sel": [], "selraw": "", "opt": BAD, "arm": BAD, "nargs": 0}
    m = re.match(r"^B;(Aspirate|Dispense)\((.*)\);$", raw, re.S)
    if not m:
        return bad
    args = _split_args(m.group(2))
    bad["nargs"] = len(args)
    if len(args) != 20:
        return bad
    lc, lcq = _unq(args[1])
    vols, volraw = [], []
    for a in args[2:10]:
        v, q = _unq(a)
        volraw.append(a)
        if q:
            vols.append(_dec_cents(v))
        else:
            vols.append(0 if a == "0" else BAD)
    sel, selq = _unq(args[17])
    return {
        "t": t,
        "ok": bool(lcq and selq),
        "nargs": len(args),
        "mask": _int(args[0]),
        "lc": lc,
        "vols": vols,
        "volraw": volraw,
        "tail": [_int(a) for a in args[10:14]],
        "grid": _int(args[14]),
        "site": _int(args[15]),
        "spacing": _int(args[16]),
        "sel": cps(sel),
        "selraw": sel,
        "opt": _int(args[18]),
        "arm": _int(args[19]),
    }


def _lex_wash(raw):
    bad = {"t": "BW", "ok": False, "nargs": 0, "ints": [], "wv": BAD, "cv": BAD, "wvraw": "", "cvraw": ""}
    m = re.match(r"^B;Wash\((.*)\);$", raw, re.S)
    if not m:
        return bad
    args = _split_args(m.group(1))
    bad["nargs"] = len(args)
    if len(args) != 16:
        return bad
    wv, q1 = _unq(args[5])
    cv, q2 = _unq(args[7])

    def tenths(s):
        c = _dec_cents(s)
        return c // 10 if c != BAD and c % 10 == 0 else BAD

    ints = [_int(args[i]) for i in (0, 1, 2, 3, 4, 6, 8, 9, 10, 11, 12, 13, 14, 15)]
    return {"t": "BW", "ok": bool(q1 and q2), "nargs": len(args), "ints": ints, "wv": tenths(wv), "cv": tenths(cv),
            "wvraw": wv, "cvraw": cv}
