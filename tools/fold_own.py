#!/usr/bin/env python3
"""Fold own-property evaluations (tools/eval_mutant.py <seeded dir> --checks <own property>, one JSON per change in the given
directory) into seeded/*/meta.json as "own_check_latest". usage: tools/fold_own.py <dir> <commit>"""
import glob
import json
import os
import sys

VERIF = os.path.dirname(os.path.dirname(os.path.abspath(__file__)))
src, commit = sys.argv[1], sys.argv[2]
n = 0
for f in sorted(glob.glob(os.path.join(src, "*.json"))):
    name = os.path.basename(f)[:-5]
    mp = os.path.join(VERIF, "seeded", name, "meta.json")
    if not os.path.exists(mp):
        continue
    try:
        r = json.load(open(f))
    except Exception:
        continue
    meta = json.load(open(mp))
    prop = meta.get("property") or name[-6:-3]
    chk = r.get("checks", {}).get(prop, {})
    meta["own_check_latest"] = {"commit": commit, "caught": prop in (r.get("caught_by") or []), "clauses": chk.get("clauses", []),
                                "suite": r.get("suite"), "demo_fails_with_change": r.get("demo_fails_with_change")}
    json.dump(meta, open(mp, "w"), indent=1)
    n += 1
print(n, "metas updated")
