#!/usr/bin/env python3
"""Regenerates /verif/MANIFEST.json from the table below (python3 tools/mkmanifest.py)."""
import json
import os

HERE = os.path.dirname(os.path.dirname(os.path.abspath(__file__)))

TWIN_NOTE = ("Trusted base: TLC, the Python projection (volumes -> integer multiples of an exact unit, float fractions -> "
             "rationals with denominator <= 5000, Tecan record lexer) and the seeded program generators. The model is bounded "
             "(2x2 plate + 2x2 trough, small volumes); larger geometries, argument shapes and units are reached only through "
             "implementation traces judged step by step by the same operators.")
CALL_NOTE = ("Trusted base: TLC and the Python executors that call the helper and log arguments and results (well ids are "
             "formatted/parsed by the harness from the Tecan convention). Exhaustive within the stated bounds only.")

CHECKS = {
    "C01": ("TLC model checking of the twin/robot model + TLC trace validation of implementation runs (robot replay of decoded records)", TWIN_NOTE, "7 C01"),
    "C02": ("TLC model checking incl. rejected operations + TLC trace validation of fault-laden histories at three units", TWIN_NOTE, "7 C02"),
    "C03": ("fault enumeration in the TLC model (every abort point is a state) + trace validation of programs ending in a rejection", TWIN_NOTE, "7 C03"),
    "C04": ("TLC model checking + TLC trace validation over argument shapes and geometries up to 16x24", TWIN_NOTE, "7 C04"),
    "C05": ("TLC model checking with exact rationals + TLC trace validation of logged fractions against exact mixing", TWIN_NOTE, "7 C05"),
    "C06": ("TLC exhaustive check of the split contract, TLAPS lemma SplitValid (valid, minimal and multi-dispense rule for every volume and max_volume), TLC model with the worklist configuration as state + trace validation of partition_volume calls and split transfers incl. configuration changes", CALL_NOTE, "7 C06"),
    "C07": ("TLC model checking of the plan contract + trace validation of transfers incl. all permutations", TWIN_NOTE, "7 C07"),
    "C08": ("TLC exhaustive numbering lemmas, TLAPS lemma PosInjective (all sizes) + trace validation of every well of every geometry", CALL_NOTE, "7 C08"),
    "C09": ("TLC check of the record grammar (Render/validity) + trace validation of every emitter's records", TWIN_NOTE, "7 C09"),
    "C10": ("TLC exhaustive mask lemmas + trace validation of tip arguments through every entry point", CALL_NOTE, "7 C10"),
    "C11": ("TLC model checking of history step properties + trace validation of histories", TWIN_NOTE, "7 C11"),
    "C12": ("TLC exhaustive encode/decode, TLAPS lemma SelectLemmas (bit addressing for every number of wells) + trace validation of selection strings by an independent decoder", CALL_NOTE, "7 C12"),
    "C13": ("TLC robot semantics of script commands + trace validation of evo_aspirate/evo_dispense/evo_wash", TWIN_NOTE, "7 C13"),
    "C14": ("TLC plan contract + trace validation of DilutionPlan objects and their execution", TWIN_NOTE, "7 C14"),
    "C15": ("TLC exhaustive transform lemmas, TLAPS TransformLemmas (every shape) + trace validation of shift/rotate/randomise calls", CALL_NOTE, "7 C15"),
    "C16": ("TLC model checking for both devices + trace validation of paired EVO/Fluent runs", TWIN_NOTE, "7 C16"),
    "C17": ("TLC file model + trace validation of written bytes", TWIN_NOTE, "7 C17"),
    "C18": ("TLC exhaustive partition contract + trace validation of partition_by_column calls", CALL_NOTE, "7 C18"),
    "C19": ("TLC exhaustive cycling lemmas + trace validation of get_trough_wells calls", CALL_NOTE, "7 C19"),
    "C20": ("TLC check of the constructor contract + trace validation of constructor calls", CALL_NOTE, "7 C20"),
}

LEVEL_TEXT = {
    "default": ("An explicit TLA+ specification of the behaviour behind this property is model checked by TLC on a bounded "
                "instance (every reachable state / every element of the bounded domain), and every observed step of the real "
                "implementation on generated inputs is judged by TLC against the same operators (trace validation). This "
                "decides the property on the model within its bounds and on every explored implementation execution; it is "
                "not a proof for unbounded inputs."),
}


def main():
    impl = sorted(f[:-3] for f in os.listdir(os.path.join(HERE, "harness", "rtverif", "props")) if f.startswith("C") and f.endswith(".py"))
    checks, na = [], []
    for pid in sorted(CHECKS):
        tech, note, ref = CHECKS[pid]
        if pid not in impl:
            na.append({"property_id": pid, "reason": "check not built yet in this round (planned with the same technique; see DESIGN.md section " + ref + ")"})
            continue
        checks.append({
            "property_id": pid,
            "quick_cmd": f"./check {pid} --tier quick",
            "thorough_cmd": f"./check {pid} --tier thorough",
            "evidence_file": f"/verif/evidence/{pid}.json",
            "replay_cmd_template": f"./check {pid} --replay {{path}}",
            "engine": "tlc",
            "level_claimed": {"category": "model_checking", "text": LEVEL_TEXT["default"], "design_ref": "DESIGN.md section " + ref},
            "level_note": note,
            "technique": tech,
        })
    m = {
        "version": 1,
        "setup_cmd": "./setup.sh",
        "hooks": {
            "guard": "ROBOTOOLS_VERIF",
            "enable": "no source hooks in /repo: the harness observes robotools through its public API (sys.path = /repo, VERIF_REPO overrides the tree). "
                      "The only instrumentation lives in /verif: harness/rtverif/suite_plugin.py, a pytest plugin loaded with -p into a run of the repository's own "
                      "suite; it patches robotools classes in that test process only when ROBOTOOLS_VERIF=1 (and ROBOTOOLS_VERIF_TRACE_FILE) is set.",
            "baseline_off_cmd": "cd /repo && /venv/bin/python -m pytest -ra -q -p no:cacheprovider --timeout=900 --continue-on-collection-errors",
            "source_commits": [],
            "add_only": True,
        },
        "engines": [
            {"name": "tlc", "path": "/verif/spec", "serves_properties": [c["property_id"] for c in checks],
             "kind_free_text": "TLA+ specification family spec/RT*.tla; bounded instances spec/mc/MC_*.tla checked by TLC; trace specifications spec/trace/Trace_Twin.tla and Trace_Calls.tla validate executions recorded from the real implementation (harness/rtverif)"},
        ],
        "checks": checks,
        "notes": "All checks: ./check <id> [--tier quick|thorough] [--replay file]; exit 0 held, 1 VIOLATION, 2 machinery failure. Known findings: known-findings.txt.",
        "not_applicable": na,
    }
    with open(os.path.join(HERE, "MANIFEST.json"), "w") as f:
        json.dump(m, f, indent=1)
    print(f"{len(checks)} checks, {len(na)} not applicable")


if __name__ == "__main__":
    main()
