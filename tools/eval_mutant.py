#!/usr/bin/env python3
"""Evaluate a seeded change: tools/eval_mutant.py <dir with patch.diff [demo.py]> [--checks C01,C07|all] [--seed N]

1. copies /repo to a scratch directory outside /repo and /verif and applies patch.diff there,
2. runs the repository's test-suite on the copy (must stay green for the change to count),
3. runs demo.py on the copy (must fail) and on /repo (must pass),
4. runs the requested checks against the copy (VERIF_REPO, model checking skipped, outputs redirected)
and prints one line per check. The copy is removed afterwards."""
import argparse
import concurrent.futures
import json
import os
import re
import shutil
import subprocess
import sys
import tempfile

VERIF = os.path.dirname(os.path.dirname(os.path.abspath(__file__)))
ALL = [f"C{i:02d}" for i in range(1, 21)]


def sh(cmd, env=None, cwd=None, timeout=1800):
    p = subprocess.run(cmd, shell=True, capture_output=True, text=True, env=env, cwd=cwd, timeout=timeout)
    return p.returncode, p.stdout + p.stderr


def main():
    ap = argparse.ArgumentParser()
    ap.add_argument("dir")
    ap.add_argument("--checks", default="all")
    ap.add_argument("--seed", default="0")
    ap.add_argument("--jobs", type=int, default=6)
    a = ap.parse_args()
    patch = os.path.join(a.dir, "patch.diff")
    demo = os.path.join(a.dir, "demo.py")
    scratch = tempfile.mkdtemp(prefix="rtv_eval_")
    out = {"dir": a.dir}
    try:
        copy = os.path.join(scratch, "repo")
        sh(f"rsync -a --exclude .git --exclude __pycache__ --exclude 'MUTANT*' /repo/ {copy}/")
        rc, o = sh(f"patch -p1 -s < {os.path.abspath(patch)}", cwd=copy)
        if rc != 0:
            print("PATCH FAILED\n" + o)
            return 3
        env = dict(os.environ, PYTHONPATH=copy, PYTHONDONTWRITEBYTECODE="1")
        rc, o = sh("/venv/bin/python -m pytest -q -p no:cacheprovider 2>&1 | tail -3", env=env, cwd=copy)
        m = re.search(r"(\d+) passed", o)
        failed = re.search(r"(\d+) failed", o)
        out["suite"] = f"{m.group(1) if m else '?'} passed" + (f", {failed.group(1)} failed" if failed else "")
        out["suite_green"] = bool(m) and not failed and int(m.group(1)) >= 148
        if os.path.exists(demo):
            rc1, o1 = sh(f"/venv/bin/python {os.path.abspath(demo)}", env=env, cwd=scratch)
            rc0, o0 = sh(f"/venv/bin/python {os.path.abspath(demo)}", env=dict(os.environ, PYTHONPATH="/repo", PYTHONDONTWRITEBYTECODE="1"), cwd=scratch)
            out["demo_fails_with_change"] = rc1 != 0
            out["demo_passes_without"] = rc0 == 0
            out["demo_tail"] = o1.strip().splitlines()[-1:] if o1.strip() else []
        checks = ALL if a.checks == "all" else a.checks.split(",")
        # run from a snapshot of the machinery so that edits to /verif made meanwhile cannot disturb the evaluation
        snap = os.path.join(scratch, "verif")
        os.makedirs(snap)
        for item in ("spec", "harness", "check", "known-findings.txt"):
            sh(f"cp -r {VERIF}/{item} {snap}/")
        envc = dict(os.environ, VERIF_REPO=copy, VERIF_SKIP_MC="1", VERIF_OUT=os.path.join(scratch, "out"), VERIF_SEED=a.seed)
        envc.pop("PYTHONPATH", None)

        def one(c):
            rc, o = sh(f"{snap}/check {c} --tier quick", env=envc, cwd=snap)
            clauses = sorted(set(re.findall(r"clause=(\S+)", o)))
            return c, rc, clauses, [l for l in o.splitlines() if "MACHINERY" in l][:2]

        res = {}
        with concurrent.futures.ThreadPoolExecutor(max_workers=a.jobs) as ex:
            for c, rc, clauses, mach in ex.map(one, checks):
                res[c] = {"exit": rc, "clauses": clauses, "machinery": mach}
        out["checks"] = res
        out["caught_by"] = sorted(c for c, r in res.items() if r["exit"] == 1)
        out["machinery_failures"] = sorted(c for c, r in res.items() if r["exit"] not in (0, 1))
        print(json.dumps(out, indent=1))
        return 0
    finally:
        shutil.rmtree(scratch, ignore_errors=True)


if __name__ == "__main__":
    sys.exit(main())
