#!/usr/bin/env python3
"""Turn the output of selftest/evaluate_all.sh into selftest/RESULTS.md, seeded/*/meta.json and seeded/README.md.
usage: tools/mk_results.py <evaluation output dir> [commit of /verif that was evaluated]"""
import glob
import json
import os
import re
import sys

VERIF = os.path.dirname(os.path.dirname(os.path.abspath(__file__)))


def load(p):
    try:
        return json.load(open(p))
    except Exception:
        return None


def main():
    src = sys.argv[1]
    commit = sys.argv[2] if len(sys.argv) > 2 else "?"
    fixed = {}
    for line in open(os.path.join(VERIF, "known-findings.txt")):
        m = re.match(r"fixed: property=(\S+) (\S+) (.*)", line)
        if m:
            fixed.setdefault(m.group(2), []).append((m.group(1), m.group(3)))
    rows = []
    for f in sorted(glob.glob(os.path.join(src, "unfix", "*.json"))):
        c = os.path.basename(f)[:-5]
        r = load(f)
        props = ", ".join(p for p, _ in fixed.get(c, [("?", "")]))
        what = fixed.get(c, [("", "")])[0][1]
        if r is None:
            rows.append(f"| {c} | {props} | {what[:90]} | evaluation failed | | |")
            continue
        own = all(p in r["caught_by"] for p, _ in fixed.get(c, []))
        rows.append(f"| {c} | {props} | {what[:90]} | {r.get('suite')} | {', '.join(r['caught_by']) or '-'} | {'yes' if own else 'NO'} |")
    only = [x for x in os.environ.get("ONLY", "results,seeded,neutral").split(",") if x]
    with open(os.path.join(VERIF, "selftest", "RESULTS.md") if "results" in only else os.devnull, "w") as f:
        f.write("# Natural mutants: every repaired defect put back\n\n"
                f"Machinery evaluated: /verif commit {commit}; produced by `selftest/evaluate_all.sh` + `tools/mk_results.py`.\n"
                "Each row: the reverse patch of one `fix:` commit applied to a scratch copy of /repo, the repository suite run on the copy\n"
                "(it stays green: the suite never saw these defects) and all 20 quick checks run against the copy (models skipped).\n\n"
                "| fix commit | property | defect | suite on the copy | reported by checks | by its property's check |\n|---|---|---|---|---|---|\n")
        f.write("\n".join(rows) + "\n")
    srows = []
    for d in sorted(glob.glob(os.path.join(VERIF, "seeded", "C*")) + glob.glob(os.path.join(VERIF, "seeded", "R2-C*")) + glob.glob(os.path.join(VERIF, "seeded", "R3-C*")) + glob.glob(os.path.join(VERIF, "seeded", "R4-*")) + glob.glob(os.path.join(VERIF, "seeded", "R5-*")) + glob.glob(os.path.join(VERIF, "seeded", "R6-*")) + glob.glob(os.path.join(VERIF, "seeded", "R7-*")) + glob.glob(os.path.join(VERIF, "seeded", "R8-*")) + glob.glob(os.path.join(VERIF, "seeded", "R9-*"))):
        name = os.path.basename(d)
        mp = os.path.join(d, "meta.json")
        meta = load(mp) or {}
        r = load(os.path.join(src, "seeded", name + ".json"))
        if r is not None:
            meta["caught_by"] = r.get("caught_by")
            meta["clauses"] = {c: v["clauses"] for c, v in r.get("checks", {}).items() if v["exit"] == 1}
            meta["machinery_failures"] = r.get("machinery_failures")
            meta["evaluated_with_verif_commit"] = commit
            meta["confirmed"]["suite"] = r.get("suite")
            meta["confirmed"]["demo_fails_with_change"] = r.get("demo_fails_with_change")
            meta["confirmed"]["demo_passes_without_change"] = r.get("demo_passes_without")
            json.dump(meta, open(mp, "w"), indent=1)
        prop = meta.get("property", name[-6:-3])
        first = meta.get("caught_by_first_evaluation") or []
        now = meta.get("caught_by") or []
        latest = meta.get("own_check_latest") or {}
        own = "yes" if prop in now else (f"yes (own check alone, {latest.get('commit')})" if latest.get("caught") else
                                         ("not claimed (see meta.json)" if meta.get("not_claimed") else "NO"))
        srows.append(f"| {name} | {prop} | {meta.get('summary', '')[:100]} | {', '.join(first) or '-'} | {', '.join(now) or '-'} | {own} | {meta.get('evaluated_with_verif_commit') or ((latest.get('commit') + ' (own check only)') if latest.get('commit') else 'first evaluation only')} |")
    with open(os.path.join(VERIF, "seeded", "README.md"), "w") as f:
        f.write("# Seeded changes\n\nEach directory holds a change to robotools written by an independent sub-agent (given only the text of one\n"
                "property and a scratch git worktree of /repo), `demo.py` (fails with the change, passes without), `notes.md` (the author's\n"
                "description of what it needs to manifest) and `meta.json`. None of them is ever committed to /repo. Every change was\n"
                "confirmed with `tools/eval_mutant.py` (patch applies to a scratch copy, repository suite stays green, demo fails with and\n"
                "passes without the change) before it was kept. Re-evaluate with `tools/eval_mutant.py seeded/<id>`.\n\n"
                "*first evaluation* = the checks that reported the change when it arrived (rounds 1-6: the machinery was being extended\n"
                "while the evaluations ran, so this column is approximate; round 7: all 20 checks of a frozen copy of the machinery as\n"
                "committed before the round; round 8: the check of the change's own property only, frozen likewise); *latest* = the most\n"
                "recent complete evaluation of the change against all 20 quick checks, with the /verif commit it was made with in the last\n"
                "column (the final evaluation re-ran the natural mutants, rounds 7 and 8 and every neutral refactoring, and as many of the\n"
                "older rounds as the time allowed).  What was strengthened after a miss is listed in DESIGN.md sections 11 and 15.\n\n"
                "| id | property | change | reported at first evaluation | reported at the latest evaluation | by its own property's check | commit |\n|---|---|---|---|---|---|---|\n")
        f.write("\n".join(srows) + "\n")
    nrows = []
    for d in sorted(glob.glob(os.path.join(VERIF, "selftest", "neutral", "N*"))):
        name = os.path.basename(d)
        r = load(os.path.join(src, "neutral", name + ".json"))
        notes = open(os.path.join(d, "notes.md")).read() if os.path.exists(os.path.join(d, "notes.md")) else ""
        first = next((ln.strip("# ").strip() for ln in notes.splitlines() if ln.strip()), "")
        if r is None:
            nrows.append(f"| {name} | {first[:110]} | not evaluated | |")
            continue
        alarms = {c: v["clauses"] for c, v in r.get("checks", {}).items() if v["exit"] != 0}
        nrows.append(f"| {name} | {first[:110]} | {r.get('suite')} | {'none' if not alarms else json.dumps(alarms)} |")
    with open(os.path.join(VERIF, "selftest", "NEUTRAL.md") if "neutral" in only else os.devnull, "w") as f:
        f.write("# Behaviour-preserving changes: the checks must stay silent\n\n"
                "Refactorings (three rounds) written by independent sub-agents that were given all 20 property texts and asked to change\n"
                "implementation details a careless checker might depend on (messages, exception classes where only 'raises' is required,\n"
                "validation order, order among equal sort keys, vectorisation, private attributes, shared implementations) while keeping\n"
                f"every property true. Evaluated with /verif commit {commit}: all 20 quick checks against a scratch copy with the patch.\n\n"
                "| id | change | suite | alarms (exit != 0) |\n|---|---|---|---|\n")
        f.write("\n".join(nrows) + "\n")
    print(len(rows), "natural,", len(srows), "seeded,", len(nrows), "neutral")


if __name__ == "__main__":
    main()
