#!/usr/bin/env python3
"""Copy confirmed seeded changes from the sub-agents' scratch worktrees into /verif/seeded/<id>/ and
(re)write seeded/README.md. usage: tools/keep_seeded.py /tmp/wt

A change is kept only if tools/eval_mutant.py confirmed: patch applies, repository suite stays green,
demo.py fails with the change and passes without it."""
import glob
import json
import os
import re
import shutil
import sys

VERIF = os.path.dirname(os.path.dirname(os.path.abspath(__file__)))


def main():
    src = sys.argv[1]
    rows = []
    for res in sorted(glob.glob(os.path.join(src, "C??-M?.json")) + glob.glob(os.path.join(src, "R2-C??-M?.json")) + glob.glob(os.path.join(src, "R3-C??-M?.json")) + glob.glob(os.path.join(src, "R4-?-M?.json")) + glob.glob(os.path.join(src, "R5-?-M?.json")) + glob.glob(os.path.join(src, "R6-?-M?.json")) + glob.glob(os.path.join(src, "R7-?-M?.json")) + glob.glob(os.path.join(src, "R8-?-M?.json")) + glob.glob(os.path.join(src, "R9-?-M?.json"))):
        name = os.path.basename(res)[:-5]
        wt, k = name.rsplit("-M", 1)
        prop = wt[-3:]
        if name.startswith("R4-"):
            # fourth round: one author per pair of properties, mutants 1-2 target the first, 3-4 the second
            pairs = {"A": ("C01", "C16"), "B": ("C02", "C20"), "C": ("C03", "C17"), "D": ("C04", "C11"), "E": ("C05", "C14"),
                     "F": ("C06", "C07"), "G": ("C08", "C12"), "H": ("C09", "C13"), "I": ("C10", "C19"), "J": ("C15", "C18")}
            prop = pairs[wt[-1]][0 if int(k) <= 2 else 1]
        if name.startswith("R5-"):
            pairs = {"A": ("C01", "C11"), "B": ("C02", "C04"), "C": ("C03", "C09"), "D": ("C05", "C20"), "E": ("C06", "C16"),
                     "F": ("C07", "C18"), "G": ("C08", "C13"), "H": ("C10", "C12"), "I": ("C14", "C19"), "J": ("C15", "C17")}
            prop = pairs[wt[-1]][0 if int(k) <= 2 else 1]
        d = os.path.join(src, wt, f"MUTANT{k}")
        if not os.path.isdir(d):
            continue
        try:
            r = json.load(open(res))
        except Exception:
            continue
        confirmed = r.get("suite_green") and r.get("demo_fails_with_change") and r.get("demo_passes_without")
        if not confirmed:
            rows.append((name, prop, "NOT KEPT (not confirmed: %s, demo fails with change=%s, passes without=%s)" % (
                r.get("suite"), r.get("demo_fails_with_change"), r.get("demo_passes_without")), [], ""))
            continue
        out = os.path.join(VERIF, "seeded", name)
        os.makedirs(out, exist_ok=True)
        for f in ("patch.diff", "demo.py", "notes.md"):
            if os.path.exists(os.path.join(d, f)):
                shutil.copy(os.path.join(d, f), os.path.join(out, f))
        notes = open(os.path.join(d, "notes.md")).read() if os.path.exists(os.path.join(d, "notes.md")) else ""
        first = next((ln.strip("# ").strip() for ln in notes.splitlines() if ln.strip()), "")
        if name.startswith("R6-"):
            pairs = {"A": ("C01", "C07"), "B": ("C02", "C14"), "C": ("C03", "C13"), "D": ("C04", "C09"), "E": ("C05", "C10"),
                     "F": ("C06", "C12"), "G": ("C08", "C15"), "H": ("C11", "C17"), "I": ("C16", "C19"), "J": ("C18", "C20")}
            prop = pairs[wt[-1]][0 if int(k) <= 2 else 1]
        if name.startswith("R7-"):
            pairs = {"A": ("C01", "C13"), "B": ("C02", "C19"), "C": ("C03", "C12"), "D": ("C04", "C10"), "E": ("C05", "C18"),
                     "F": ("C06", "C15"), "G": ("C07", "C20"), "H": ("C08", "C17"), "I": ("C09", "C14"), "J": ("C11", "C16")}
            prop = pairs[wt[-1]][0 if int(k) <= 2 else 1]
        if name.startswith("R8-"):
            pairs = {"A": ("C01", "C09"), "B": ("C02", "C12"), "C": ("C03", "C15"), "D": ("C04", "C18"), "E": ("C05", "C16"),
                     "F": ("C06", "C19"), "G": ("C07", "C13"), "H": ("C08", "C20"), "I": ("C10", "C11"), "J": ("C14", "C17")}
            prop = pairs[wt[-1]][0 if int(k) <= 2 else 1]
        if name.startswith("R9-"):
            pairs = {"A": ("C01", "C15"), "B": ("C02", "C17"), "C": ("C03", "C20"), "D": ("C04", "C13"), "E": ("C05", "C12"),
                     "F": ("C06", "C10"), "G": ("C07", "C19"), "H": ("C08", "C11"), "I": ("C09", "C18"), "J": ("C14", "C16")}
            prop = pairs[wt[-1]][0 if int(k) <= 2 else 1]
        meta_path = os.path.join(out, "meta.json")
        old = json.load(open(meta_path)) if os.path.exists(meta_path) else {}
        meta = {
            "id": name,
            "property": prop,
            "origin": "independent sub-agent given only the property text and a scratch worktree of /repo",
            "summary": first,
            "needs_to_manifest": "see notes.md (written by the author of the change)",
            "confirmed": {"suite": r.get("suite"), "demo_fails_with_change": True, "demo_passes_without_change": True,
                          "how": "tools/eval_mutant.py: patch applied to a scratch copy of /repo outside /repo and /verif, "
                                 "pytest run there, demo.py run against the copy and against /repo, all 20 quick checks run against the copy"},
            "caught_by_first_evaluation": old.get("caught_by_first_evaluation", r.get("caught_by")),
            "caught_by": r.get("caught_by"),
            "clauses": {c: v["clauses"] for c, v in r.get("checks", {}).items() if v["exit"] == 1},
            "machinery_failures": r.get("machinery_failures"),
        }
        json.dump(meta, open(meta_path, "w"), indent=1)
        rows.append((name, prop, first, r.get("caught_by"), "yes" if prop in (r.get("caught_by") or []) else "no"))
    with open(os.path.join(VERIF, "seeded", "README.md"), "w") as f:
        f.write("# Seeded changes\n\nEach directory holds a change to robotools written by an independent sub-agent (given only the text of one\n"
                "property and a scratch worktree), `demo.py` (fails with the change, passes without) and `meta.json`.\n"
                "None of them is ever committed to /repo. Re-evaluate with `tools/eval_mutant.py seeded/<id>`.\n\n"
                "| id | change | reported by checks | by its own property's check |\n|---|---|---|---|\n")
        for name, prop, first, caught, own in rows:
            f.write(f"| {name} | {first[:110]} | {', '.join(caught) if caught else '-'} | {own} |\n")
    print(len(rows), "entries")


if __name__ == "__main__":
    main()
