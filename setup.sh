#!/bin/sh
# Offline setup: syntax-check every specification with SANY and byte-compile the harness. Nothing is fetched.
set -e
cd "$(dirname "$0")"
export PYTHONPATH="$PWD/harness"
export PYTHONDONTWRITEBYTECODE=1
/venv/bin/python - <<'PY'
import glob, sys, py_compile
from rtverif.tlc import sany
bad = 0
for f in sorted(glob.glob("spec/*.tla") + glob.glob("spec/mc/*.tla") + glob.glob("spec/trace/*.tla")):
    ok, out = sany(__import__("os").path.abspath(f))
    if not ok:
        bad += 1
        print("SANY failed:", f)
        print(out[-1500:])
for f in glob.glob("harness/rtverif/**/*.py", recursive=True):
    compile(open(f).read(), f, "exec")
print("setup ok" if not bad else f"{bad} specifications failed")
sys.exit(1 if bad else 0)
PY
