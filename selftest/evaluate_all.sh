#!/bin/sh
# Evaluate every natural mutant (reverse patch of a fix) and every seeded change against all 20 quick checks.
# usage: selftest/evaluate_all.sh <output directory>   (run from a stable snapshot, e.g. with `vp run`)
HERE="$(cd "$(dirname "$0")/.." && pwd)"
OUT="${1:-/tmp/final_eval}"
mkdir -p "$OUT/unfix" "$OUT/seeded" "$OUT/neutral"
for f in "$HERE"/selftest/patches/unfix/*.diff; do
  b=$(basename "$f" .diff)
  d="$OUT/unfix/$b"; mkdir -p "$d"; cp "$f" "$d/patch.diff"
  python3 "$HERE/tools/eval_mutant.py" "$d" --checks all > "$OUT/unfix/$b.json" 2>&1
  echo "unfix/$b done"
done
for d in "$HERE"/seeded/C* "$HERE"/seeded/R2-C* "$HERE"/seeded/R3-C*; do
  [ -d "$d" ] || continue
  b=$(basename "$d")
  python3 "$HERE/tools/eval_mutant.py" "$d" --checks all > "$OUT/seeded/$b.json" 2>&1
  echo "seeded/$b done"
done
for d in "$HERE"/selftest/neutral/N*; do
  [ -d "$d" ] || continue
  b=$(basename "$d")
  python3 "$HERE/tools/eval_mutant.py" "$d" --checks all > "$OUT/neutral/$b.json" 2>&1
  echo "neutral/$b done"
done
echo ALL DONE
