#!/bin/sh
# Evaluate every natural mutant (reverse patch of a fix), every seeded change and every neutral refactoring against all
# 20 quick checks.
# usage: selftest/evaluate_all.sh <output directory> [part ...]   parts: unfix r1 r2 r3 r4 r5 r6 r7 r8 r9 neutral (default: all)
# (run from a stable snapshot, e.g. with `vp run`; the parts can run as separate jobs into the same directory)
HERE="$(cd "$(dirname "$0")/.." && pwd)"
OUT="${1:-/tmp/final_eval}"
[ $# -gt 0 ] && shift
PARTS="${*:-unfix r1 r2 r3 r4 r5 r6 r7 r8 r9 neutral}"
mkdir -p "$OUT/unfix" "$OUT/seeded" "$OUT/neutral"
has() { case " $PARTS " in *" $1 "*) return 0;; esac; return 1; }
# SHARD=i/n: only every n-th item, starting with the i-th (several jobs can share one part)
SI="${SHARD%%/*}"; SN="${SHARD##*/}"; K=0
mine() { K=$((K + 1)); [ -z "${SHARD:-}" ] && return 0; [ $((K % SN)) -eq "$SI" ] && return 0; return 1; }
if has unfix; then
for f in "$HERE"/selftest/patches/unfix/*.diff; do
  b=$(basename "$f" .diff)
  mine || continue
  d="$OUT/unfix/$b"; mkdir -p "$d"; cp "$f" "$d/patch.diff"
  [ -s "$OUT/unfix/$b.json" ] && [ -z "${REDO:-}" ] && continue   # top-up runs keep what is there
  python3 "$HERE/tools/eval_mutant.py" "$d" --checks all > "$OUT/unfix/$b.json" 2>&1
  echo "unfix/$b done"
done
fi
seeded() {
  for d in "$@"; do
    [ -d "$d" ] || continue
    b=$(basename "$d")
    mine || continue
    [ -s "$OUT/seeded/$b.json" ] && [ -z "${REDO:-}" ] && continue
    python3 "$HERE/tools/eval_mutant.py" "$d" --checks all > "$OUT/seeded/$b.json" 2>&1
    echo "seeded/$b done"
  done
}
has r1 && seeded "$HERE"/seeded/C*
has r2 && seeded "$HERE"/seeded/R2-C*
has r3 && seeded "$HERE"/seeded/R3-C*
has r4 && seeded "$HERE"/seeded/R4-*
has r5 && seeded "$HERE"/seeded/R5-*
has r6 && seeded "$HERE"/seeded/R6-*
has r7 && seeded "$HERE"/seeded/R7-*
has r8 && seeded "$HERE"/seeded/R8-*
has r9 && seeded "$HERE"/seeded/R9-*
if has neutral; then
for d in "$HERE"/selftest/neutral/N*; do
  [ -d "$d" ] || continue
  b=$(basename "$d")
  mine || continue
  [ -s "$OUT/neutral/$b.json" ] && [ -z "${REDO:-}" ] && continue
  python3 "$HERE/tools/eval_mutant.py" "$d" --checks all > "$OUT/neutral/$b.json" 2>&1
  echo "neutral/$b done"
done
fi
echo "DONE: $PARTS"
