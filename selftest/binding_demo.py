#!/usr/bin/env python3
"""Binding demo: the trace specification really constrains the logged fields.

A valid trace recorded from the implementation is accepted; corrupting one logged volume, one
record position, one composition fraction or one history label makes exactly the clauses that
talk about that field fail; dropping an event is detected as well.
Run: PYTHONPATH=harness /venv/bin/python selftest/binding_demo.py"""
import copy
import os
import sys

sys.path.insert(0, os.path.join(os.path.dirname(os.path.abspath(__file__)), "..", "harness"))
os.environ.setdefault("VERIF_OUT", "/tmp/rtv_binding")
from rtverif.common import robotools  # noqa

robotools()
from rtverif import twin  # noqa
from rtverif.drivers import targeted  # noqa
from rtverif.runner import Run  # noqa


def judge(trace):
    run = Run("C01", "quick")
    run.is_replay = True
    n = len(trace["events"]) + 1
    run.validate("Trace_Twin", {"traces": [trace], "expect_judged": n}, [trace])
    failed = sorted({v["clause"] for v in run.violations + run.context})
    return failed, run.machinery_errors


def main():
    prog = [p for p in targeted.worklist_programs("evo") if p["id"].endswith("resort-both")][0]
    base = twin.execute(prog)
    ok, mach = judge(base)
    assert not ok and not mach, (ok, mach)
    print("valid trace accepted:", len(base["events"]), "events")

    t = copy.deepcopy(base)
    t["events"][0]["post"]["vol"][0][0] += 1
    f, _ = judge(t)
    print("volume corrupted      ->", f)
    assert "C04.transfer" in f and "C01.robot" in f

    t = copy.deepcopy(base)
    rec = [r for r in t["events"][0]["recs"] if r["t"] == "D"][0]
    rec["pos"] += 1
    f, _ = judge(t)
    print("record position       ->", f)
    assert "C07.flows" in f and "C09.wellformed" in f

    t = copy.deepcopy(base)
    t["events"][0]["post"]["last"][0]["l"] = "something else"
    f, _ = judge(t)
    print("history label         ->", f)
    assert f == ["C11.label"], f

    t = copy.deepcopy(base)
    comp = t["events"][0]["post"]["comp"]
    tgt = [(k, i) for k in range(len(comp)) for i in range(len(comp[k])) if comp[k][i]][0]
    comp[tgt[0]][tgt[1]][0][1] += 1
    f, _ = judge(t)
    print("composition fraction  ->", f)
    assert any(c.startswith("C05.") for c in f)

    t = copy.deepcopy(base)
    del t["events"][0]
    f, _ = judge(t)
    print("event dropped         ->", f)
    assert f, "a dropped event must not go unnoticed"

    run = Run("C01", "quick")
    run.is_replay = True
    run.validate("Trace_Twin", {"traces": [base], "expect_judged": len(base["events"]) + 2}, [base])
    assert run.machinery_errors, "a mismatch between sent and judged steps must be reported"
    print("judged-step count mismatch ->", run.machinery_errors[0])
    print("BINDING DEMO OK")


if __name__ == "__main__":
    main()
