#!/bin/sh
# usage: with_patch.sh <patch.diff> <command...>
# Applies the patch to a scratch copy of /repo (outside /repo and /verif), runs the repository's
# test-suite there and then the command with VERIF_REPO pointing at the copy; removes the copy.
set -u
PATCH="$(realpath "$1")"; shift
D="$(mktemp -d /tmp/rtv_mut_XXXXXX)"
trap 'rm -rf "$D"' EXIT
rsync -a --exclude .git --exclude '__pycache__' /repo/ "$D/"
( cd "$D" && patch -p1 -s < "$PATCH" ) || { echo "PATCH FAILED"; exit 3; }
if [ "${SKIP_SUITE:-0}" != "1" ]; then
  ( cd "$D" && PYTHONPATH="$D" /venv/bin/python -m pytest -q -p no:cacheprovider -x 2>&1 | tail -2 )
fi
VERIF_REPO="$D" "$@"
echo "exit=$?"
